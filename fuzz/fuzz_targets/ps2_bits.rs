#![no_main]
// Coverage-guided target: the bytes are decoded into the structured input of the harness and the
// semantic oracle selected by PCKB_PROP runs inside the target (see harness/src/fuzz_api.rs).
use libfuzzer_sys::fuzz_target;
fuzz_target!(|data: &[u8]| {
    pckb_verif::fuzz_api::run_target("ps2_bits", data);
});
