#!/bin/bash
# run_campaign.sh <ID> <stats-dir>: coverage-guided libFuzzer campaigns for property <ID>.
# Fixed work (-runs=N), fixed seeds (VERIF_SEED+job), fresh corpus directories (odd jobs start
# from the seed corpus, even jobs from an empty corpus), semantic oracle inside the target
# (PCKB_PROP=<ID>). Writes one <target>-job<j>.json per job into <stats-dir>; artifacts are
# re-evaluated by the harness. Never decides anything itself; a build failure only means the
# fuzz layer is skipped (noted in the stats).
set -u
ID="$1"; STATS="$2"
BIN="${PCKB_BIN:-/verif/target/release/pckb-check}"
RUNS="${PCKB_FUZZ_RUNS:-500000}"
JOBS="${PCKB_FUZZ_JOBS:-4}"
# safety cap per job (seconds): a job that is slower than ~400 exec/s stops early; its statistics
# then show fewer executions than requested (a budget hit is never a verdict)
MAXT="${PCKB_FUZZ_MAX_TIME:-1200}"
SEED="${VERIF_SEED:-0}"
TARGETS=$("$BIN" fuzz-targets "$ID")
[ -z "$TARGETS" ] && exit 0
if [ -n "${PCKB_REPO:-}" ]; then
  echo '{"target":"(none)","note":"fuzz layer skipped: scratch-copy mode (PCKB_REPO) is not supported by cargo-fuzz; apply the patch to /repo instead"}' > "$STATS/skipped.json"; exit 0
fi
cd /verif/harness || exit 0
export CARGO_NET_OFFLINE=true
if ! cargo +nightly fuzz build -s none --fuzz-dir /verif/fuzz > "$STATS/build.log" 2>&1; then
  echo "{\"target\":\"(none)\",\"note\":\"fuzz targets do not build against this tree; fuzz layer skipped\"}" > "$STATS/skipped.json"; exit 0
fi
TDIR=/verif/target/x86_64-unknown-linux-gnu/release
SEEDS=/verif/target/fuzz-seeds
rm -rf "$SEEDS"; "$BIN" seeds "$SEEDS" > /dev/null
WORK=/verif/target/fuzz-work/$ID
rm -rf "$WORK"; mkdir -p "$WORK"
for t in $TARGETS; do
  for j in $(seq 1 "$JOBS"); do
    w="$WORK/$t/job$j"; mkdir -p "$w/corpus" "$w/artifacts"
    if [ $((j % 2)) -eq 1 ] && [ -d "$SEEDS/$t" ]; then cp "$SEEDS/$t"/* "$w/corpus/" 2>/dev/null; fi
    # jobs 1-2: short inputs, plain coverage; jobs 3+: long inputs with value profile (comparison
    # operands as feedback: lets the fuzzer climb counters and thresholds that plain edge
    # coverage cannot see)
    if [ "$j" -le 2 ]; then EXTRA="-max_len=256"; else EXTRA="-max_len=8192 -use_value_profile=1"; fi
    ( cd "$w" && PCKB_PROP="$ID" timeout 3000 "$TDIR/$t" corpus -runs="$RUNS" -max_total_time="$MAXT" -seed=$((SEED * 16 + j)) $EXTRA -len_control=0 \
        -artifact_prefix="$w/artifacts/" -print_final_stats=1 -verbosity=1 > "$w/log" 2>&1 ) &
  done
done
wait
for t in $TARGETS; do
  for j in $(seq 1 "$JOBS"); do
    w="$WORK/$t/job$j"
    execs=$(grep -a 'stat::number_of_executed_units' "$w/log" | awk '{print $2}' | tail -1)
    covline=$(grep -a -E ' cov: [0-9]+' "$w/log" | tail -1)
    cov=$(echo "$covline" | sed -n 's/.* cov: \([0-9]*\).*/\1/p'); ft=$(echo "$covline" | sed -n 's/.* ft: \([0-9]*\).*/\1/p')
    units=$(ls "$w/corpus" | wc -l)
    arts=$(ls "$w/artifacts" 2>/dev/null | sed "s#^#\"$w/artifacts/#; s#\$#\"#" | paste -sd, -)
    start=$([ $((j % 2)) -eq 1 ] && echo seeded || echo empty)
    cat > "$STATS/$t-job$j.json" <<JSON
{"target":"$t","job":$j,"oracle":"$ID","start_corpus":"$start","runs_requested":$RUNS,"mode":"$([ "$j" -le 2 ] && echo "max_len=256" || echo "max_len=8192,value_profile")","libfuzzer_seed":$((SEED * 16 + j)),"execs":${execs:-0},"cov":${cov:-0},"ft":${ft:-0},"corpus_units":$units,"corpus_dir":"$w/corpus","artifacts":[${arts:-}]}
JSON
  done
done
exit 0
