// Generates ALL_KEYS (every unit variant of pc_keyboard::KeyCode, in declaration order) from the
// tree under test, so table-independent checks automatically cover keys added later.
// No transmute anywhere.
//
// The source is lexed, not pattern-matched: comments (line, doc, nested block), string and char
// literals are blanked before any brace is looked at, every `.rs` file under `src/` (and the
// `[lib] path` of Cargo.toml, if any) is searched for `enum KeyCode`, attributes are skipped
// bracket-aware, `#[cfg(..)]`-gated variants and variants carrying data are left out (the harness
// could not name or construct them), and discriminant expressions are ignored.
use std::{env, fs, path::Path, path::PathBuf};

/// Replace comments and the contents of string / char literals by spaces (newlines kept).
fn blank(src: &str) -> String {
    let b: Vec<char> = src.chars().collect();
    let mut out = String::with_capacity(src.len());
    let mut i = 0;
    let n = b.len();
    let keep_nl = |c: char| if c == '\n' { '\n' } else { ' ' };
    while i < n {
        let c = b[i];
        if c == '/' && i + 1 < n && b[i + 1] == '/' {
            while i < n && b[i] != '\n' {
                out.push(' ');
                i += 1;
            }
        } else if c == '/' && i + 1 < n && b[i + 1] == '*' {
            let mut depth = 0usize;
            loop {
                if i + 1 < n && b[i] == '/' && b[i + 1] == '*' {
                    depth += 1;
                    out.push_str("  ");
                    i += 2;
                } else if i + 1 < n && b[i] == '*' && b[i + 1] == '/' {
                    depth -= 1;
                    out.push_str("  ");
                    i += 2;
                    if depth == 0 {
                        break;
                    }
                } else if i < n {
                    out.push(keep_nl(b[i]));
                    i += 1;
                } else {
                    break;
                }
            }
        } else if c == 'r' && i + 1 < n && (b[i + 1] == '"' || b[i + 1] == '#') && (i == 0 || !(b[i - 1].is_alphanumeric() || b[i - 1] == '_')) {
            // raw string r"…", r#"…"#
            let mut j = i + 1;
            let mut hashes = 0;
            while j < n && b[j] == '#' {
                hashes += 1;
                j += 1;
            }
            if j < n && b[j] == '"' {
                out.push('r');
                for _ in 0..hashes {
                    out.push(' ');
                }
                out.push('"');
                j += 1;
                loop {
                    if j >= n {
                        break;
                    }
                    if b[j] == '"' {
                        let mut k = 0;
                        while k < hashes && j + 1 + k < n && b[j + 1 + k] == '#' {
                            k += 1;
                        }
                        if k == hashes {
                            out.push('"');
                            for _ in 0..hashes {
                                out.push(' ');
                            }
                            j += 1 + hashes;
                            break;
                        }
                    }
                    out.push(keep_nl(b[j]));
                    j += 1;
                }
                i = j;
            } else {
                out.push(c);
                i += 1;
            }
        } else if c == '"' {
            out.push('"');
            i += 1;
            while i < n && b[i] != '"' {
                if b[i] == '\\' && i + 1 < n {
                    out.push(' ');
                    out.push(keep_nl(b[i + 1]));
                    i += 2;
                } else {
                    out.push(keep_nl(b[i]));
                    i += 1;
                }
            }
            if i < n {
                out.push('"');
                i += 1;
            }
        } else if c == '\'' {
            // char literal ('x', '\n', '\u{1F600}') or lifetime ('a)
            if i + 2 < n && b[i + 1] != '\\' && b[i + 2] == '\'' {
                out.push_str("' '");
                i += 3;
            } else if i + 1 < n && b[i + 1] == '\\' {
                let mut j = i + 2;
                while j < n && b[j] != '\'' && j < i + 12 {
                    j += 1;
                }
                if j < n && b[j] == '\'' {
                    for _ in i..=j {
                        out.push(' ');
                    }
                    i = j + 1;
                } else {
                    out.push(c);
                    i += 1;
                }
            } else {
                out.push(c);
                i += 1;
            }
        } else {
            out.push(c);
            i += 1;
        }
    }
    out
}

fn is_ident(c: char) -> bool {
    c.is_alphanumeric() || c == '_'
}

/// Body (between the braces) of `enum KeyCode { … }` in blanked source, if present.
fn enum_body(src: &str) -> Option<String> {
    let chars: Vec<char> = src.chars().collect();
    let text: String = chars.iter().collect();
    let mut from = 0;
    while let Some(p) = text[from..].find("enum") {
        let at = from + p;
        from = at + 4;
        let before_ok = at == 0 || !is_ident(text[..at].chars().last().unwrap());
        let rest = &text[at + 4..];
        let after = rest.trim_start();
        if !before_ok || after.len() == rest.len() || !after.starts_with("KeyCode") {
            continue;
        }
        let tail = &after["KeyCode".len()..];
        if tail.chars().next().map(is_ident).unwrap_or(true) {
            continue; // KeyCodeXxx
        }
        let open = tail.find('{')?;
        if tail[..open].contains(';') {
            continue;
        }
        let mut depth = 0i32;
        let mut body = String::new();
        for c in tail[open..].chars() {
            match c {
                '{' => {
                    depth += 1;
                    if depth == 1 {
                        continue;
                    }
                }
                '}' => {
                    depth -= 1;
                    if depth == 0 {
                        return Some(body);
                    }
                }
                _ => {}
            }
            body.push(c);
        }
        return None;
    }
    None
}

/// Split at commas that are outside every bracket.
fn split_top(body: &str) -> Vec<String> {
    let mut v = Vec::new();
    let mut cur = String::new();
    let mut depth = 0i32;
    for c in body.chars() {
        match c {
            '(' | '[' | '{' => depth += 1,
            ')' | ']' | '}' => depth -= 1,
            ',' if depth == 0 => {
                v.push(std::mem::take(&mut cur));
                continue;
            }
            _ => {}
        }
        cur.push(c);
    }
    if !cur.trim().is_empty() {
        v.push(cur);
    }
    v
}

/// (variant name, cfg-gated?, carries data?) of one enum item.
fn variant(item: &str) -> Option<(String, bool, bool)> {
    let mut s = item.trim_start();
    let mut gated = false;
    while s.starts_with('#') {
        let open = s.find('[')?;
        let mut depth = 0i32;
        let mut end = None;
        for (i, c) in s[open..].char_indices() {
            match c {
                '[' => depth += 1,
                ']' => {
                    depth -= 1;
                    if depth == 0 {
                        end = Some(open + i);
                        break;
                    }
                }
                _ => {}
            }
        }
        let end = end?;
        let attr = s[open + 1..end].trim();
        if attr.starts_with("cfg") && !attr.starts_with("cfg_attr") {
            gated = true;
        }
        s = s[end + 1..].trim_start();
    }
    let name: String = s.chars().take_while(|c| is_ident(*c)).collect();
    if name.is_empty() || !name.chars().next().unwrap().is_alphabetic() {
        return None;
    }
    let rest = s[name.len()..].trim_start();
    let data = rest.starts_with('(') || rest.starts_with('{');
    Some((name, gated, data))
}

fn rs_files(dir: &Path, out: &mut Vec<PathBuf>) {
    if let Ok(rd) = fs::read_dir(dir) {
        let mut entries: Vec<PathBuf> = rd.filter_map(|e| e.ok().map(|e| e.path())).collect();
        entries.sort();
        for p in entries {
            if p.is_dir() {
                rs_files(&p, out);
            } else if p.extension().map(|e| e == "rs").unwrap_or(false) {
                out.push(p);
            }
        }
    }
}

fn main() {
    println!("cargo:rerun-if-env-changed=PCKB_REPO");
    let repo = env::var("PCKB_REPO").unwrap_or_else(|_| "/repo".to_string());
    let root = PathBuf::from(&repo);
    println!("cargo:rerun-if-changed={}", root.join("src").display());
    println!("cargo:rerun-if-changed={}", root.join("Cargo.toml").display());
    let mut files = vec![root.join("src/lib.rs")];
    // `[lib] path = "…"`
    if let Ok(toml) = fs::read_to_string(root.join("Cargo.toml")) {
        let mut in_lib = false;
        for line in toml.lines() {
            let t = line.trim();
            if t.starts_with('[') {
                in_lib = t == "[lib]";
            } else if in_lib && t.starts_with("path") {
                if let Some(q) = t.split('"').nth(1) {
                    files.insert(0, root.join(q));
                }
            }
        }
    }
    rs_files(&root.join("src"), &mut files);
    let mut names: Vec<String> = Vec::new();
    let mut skipped: Vec<String> = Vec::new();
    let mut found_in = None;
    for f in &files {
        let Ok(src) = fs::read_to_string(f) else { continue };
        println!("cargo:rerun-if-changed={}", f.display());
        let blanked = blank(&src);
        if let Some(body) = enum_body(&blanked) {
            for item in split_top(&body) {
                if let Some((name, gated, data)) = variant(&item) {
                    if gated || data {
                        skipped.push(name);
                    } else {
                        names.push(name);
                    }
                }
            }
            found_in = Some(f.clone());
            break;
        }
    }
    let found_in = found_in.unwrap_or_else(|| panic!("`enum KeyCode {{ … }}` not found in any .rs file under {}/src", repo));
    assert!(!names.is_empty(), "KeyCode in {} has no unit variants?", found_in.display());
    let mut out = String::new();
    out.push_str("pub const ALL_KEYS: &[pc_keyboard::KeyCode] = &[\n");
    for n in &names {
        out.push_str(&format!("    pc_keyboard::KeyCode::{},\n", n));
    }
    out.push_str("];\n");
    out.push_str(&format!("pub const KEYS_SKIPPED: &[&str] = &{:?};\n", skipped));
    out.push_str(&format!("pub const KEYS_SOURCE: &str = {:?};\n", found_in.display().to_string()));
    out.push_str(&format!("pub const TREE_UNDER_TEST: &str = {:?};\n", repo));
    let dst = PathBuf::from(env::var("OUT_DIR").unwrap()).join("all_keys.rs");
    fs::write(dst, out).unwrap();
}
