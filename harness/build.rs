// Generates ALL_KEYS (every variant of pc_keyboard::KeyCode, in declaration order) by parsing
// `pub enum KeyCode { … }` in the tree under test, so table-independent checks automatically
// cover keys added later. No transmute anywhere.
use std::{env, fs, path::PathBuf};

fn main() {
    println!("cargo:rerun-if-env-changed=PCKB_REPO");
    let repo = env::var("PCKB_REPO").unwrap_or_else(|_| "/repo".to_string());
    let lib = PathBuf::from(&repo).join("src/lib.rs");
    println!("cargo:rerun-if-changed={}", lib.display());
    let src = fs::read_to_string(&lib).expect("read src/lib.rs of the tree under test");
    let start = src.find("pub enum KeyCode").expect("enum KeyCode not found");
    let body_start = start + src[start..].find('{').unwrap() + 1;
    // the enum has no nested braces
    let body_end = body_start + src[body_start..].find('}').unwrap();
    let mut names = Vec::new();
    for line in src[body_start..body_end].lines() {
        let t = line.trim();
        if t.is_empty() || t.starts_with("//") || t.starts_with("#[") {
            continue;
        }
        // `Name,` or `Name = 3,`
        let name: String = t.chars().take_while(|c| c.is_alphanumeric() || *c == '_').collect();
        if !name.is_empty() && name.chars().next().unwrap().is_uppercase() {
            names.push(name);
        }
    }
    assert!(names.len() >= 100, "KeyCode parse produced only {} variants", names.len());
    let mut out = String::new();
    out.push_str("pub const ALL_KEYS: &[pc_keyboard::KeyCode] = &[\n");
    for n in &names {
        out.push_str(&format!("    pc_keyboard::KeyCode::{},\n", n));
    }
    out.push_str("];\n");
    out.push_str(&format!("pub const TREE_UNDER_TEST: &str = {:?};\n", repo));
    let dst = PathBuf::from(env::var("OUT_DIR").unwrap()).join("all_keys.rs");
    fs::write(dst, out).unwrap();
}
