//! State-fingerprint-guided breadth-first exploration of components that cannot be cloned
//! (Ps2Decoder, EventDecoder, Keyboard): a state is named by the `Debug` rendering the crate
//! itself derives for these types, reached by replaying its shortest history from a fresh
//! object, and expanded with every symbol of an input alphabet; the oracle is evaluated on
//! every replayed history. The Debug string only steers the search (which histories are worth
//! extending): if it shows irrelevant detail the search is finer, if it hides state the search
//! is coarser — in neither case can it cause an alarm, because every verdict comes from the
//! oracle on a real execution from a fresh object.
use rayon::prelude::*;
use std::collections::HashMap;

pub struct Outcome {
    pub states: usize,
    pub histories_run: u64,
    pub steps: u64,
    pub closed: bool,
    pub max_depth: usize,
    /// failing histories (alphabet indices), shortest first
    pub failures: Vec<Vec<u32>>,
}

/// `run(history)` replays the history (alphabet indices) on fresh objects and returns
/// Ok((fingerprint of the final state, oracle holds on the whole history)) or Err(panic text).
pub fn bfs<F>(alphabet_len: usize, cap: usize, max_failures: usize, run: F) -> Outcome
where
    F: Fn(&[u32]) -> Result<(String, bool), String> + Sync,
{
    let mut parent: Vec<Option<(u32, u32)>> = vec![None];
    let mut depth: Vec<u32> = vec![0];
    let mut index: HashMap<String, u32> = HashMap::new();
    let root_fp = match run(&[]) {
        Ok((fp, _)) => fp,
        Err(_) => String::from("<panic at construction>"),
    };
    index.insert(root_fp, 0);
    let hist_of = |parent: &Vec<Option<(u32, u32)>>, mut i: u32| -> Vec<u32> {
        let mut v = Vec::new();
        while let Some((p, s)) = parent[i as usize] {
            v.push(s);
            i = p;
        }
        v.reverse();
        v
    };
    let mut out = Outcome { states: 1, histories_run: 0, steps: 0, closed: false, max_depth: 0, failures: Vec::new() };
    let mut level: Vec<u32> = vec![0];
    while !level.is_empty() {
        // one BFS level, in parallel
        let jobs: Vec<(u32, u32)> = level.iter().flat_map(|s| (0..alphabet_len as u32).map(move |a| (*s, a))).collect();
        let results: Vec<(u32, u32, Result<(String, bool), String>, usize)> = jobs
            .par_iter()
            .map(|(s, a)| {
                let mut h = hist_of(&parent, *s);
                h.push(*a);
                let r = run(&h);
                (*s, *a, r, h.len())
            })
            .collect();
        let mut next_level = Vec::new();
        for (s, a, r, len) in results {
            out.histories_run += 1;
            out.steps += len as u64;
            match r {
                Ok((fp, true)) => {
                    if !index.contains_key(&fp) {
                        if parent.len() < cap {
                            let id = parent.len() as u32;
                            index.insert(fp, id);
                            parent.push(Some((s, a)));
                            depth.push(depth[s as usize] + 1);
                            out.max_depth = out.max_depth.max(depth[id as usize] as usize);
                            next_level.push(id);
                        } else {
                            out.closed = false;
                        }
                    }
                }
                Ok((_, false)) | Err(_) => {
                    if out.failures.len() < max_failures {
                        let mut h = hist_of(&parent, s);
                        h.push(a);
                        out.failures.push(h);
                    }
                }
            }
        }
        if parent.len() >= cap {
            out.states = parent.len();
            out.closed = false;
            return out;
        }
        level = next_level;
    }
    out.states = parent.len();
    out.closed = true;
    out
}
