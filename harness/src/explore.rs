//! State-fingerprint-guided breadth-first exploration of components that cannot be cloned
//! (Ps2Decoder, EventDecoder, Keyboard): a state is named by the `Debug` rendering the crate
//! itself derives for these types, reached by replaying its shortest history from a fresh
//! object, and expanded with every symbol of an input alphabet; the oracle is evaluated on
//! every replayed history. The Debug string only steers the search (which histories are worth
//! extending): if it shows irrelevant detail the search is finer, if it hides state the search
//! is coarser — in neither case can it cause an alarm, because every verdict comes from the
//! oracle on a real execution from a fresh object.
//!
//! Counter masking. A wide statistics counter (bytes seen, frames seen, …) makes every state
//! look new, so the plain search drowns at depth 1-2. When the plain pass hits its cap, the
//! numeric tokens of the Debug rendering that behaved like a counter on every sampled
//! transition (never decreased, increased at least once) are masked and the search is run a
//! second time with the masked rendering as the state name. Masking only merges names; the
//! histories that are replayed, and the verdicts, are as real as before.
use rayon::prelude::*;
use std::collections::HashMap;

#[derive(Default)]
pub struct Outcome {
    pub states: usize,
    pub histories_run: u64,
    pub steps: u64,
    pub closed: bool,
    pub max_depth: usize,
    /// failing histories (alphabet indices), shortest first
    pub failures: Vec<Vec<u32>>,
    /// second pass with counter-like tokens masked (only if the first pass hit the cap)
    pub masked_pass: Option<Box<Outcome>>,
    pub masked_tokens: usize,
}

fn tokens(s: &str) -> Vec<&str> {
    s.split(|c: char| !(c.is_ascii_alphanumeric() || c == '_')).filter(|t| !t.is_empty()).collect()
}

/// Which token positions behave like a counter over the sampled (parent, child) renderings.
pub fn counter_mask(samples: &[(String, String)]) -> Vec<bool> {
    let Some(first) = samples.first() else { return Vec::new() };
    let n = tokens(&first.0).len();
    let mut never_decreased = vec![true; n];
    let mut increased = vec![false; n];
    let mut numeric = vec![true; n];
    let mut usable = 0;
    for (p, c) in samples {
        let (tp, tc) = (tokens(p), tokens(c));
        if tp.len() != n || tc.len() != n {
            continue; // the rendering changed shape (enum with payload): no information
        }
        usable += 1;
        for i in 0..n {
            match (tp[i].parse::<u64>(), tc[i].parse::<u64>()) {
                (Ok(a), Ok(b)) => {
                    if b < a {
                        never_decreased[i] = false;
                    }
                    if b > a {
                        increased[i] = true;
                    }
                }
                _ => numeric[i] = false,
            }
        }
    }
    if usable < 8 {
        return vec![false; n];
    }
    (0..n).map(|i| numeric[i] && never_decreased[i] && increased[i]).collect()
}

pub fn apply_mask(s: &str, mask: &[bool]) -> String {
    if !mask.iter().any(|m| *m) {
        return s.to_string();
    }
    let toks = tokens(s);
    if toks.len() != mask.len() {
        return s.to_string();
    }
    let mut out = String::with_capacity(s.len());
    for (i, t) in toks.iter().enumerate() {
        if i > 0 {
            out.push(' ');
        }
        out.push_str(if mask[i] { "#" } else { t });
    }
    out
}

/// `run(history)` replays the history (alphabet indices) on fresh objects and returns
/// Ok((fingerprint of the final state, oracle holds on the whole history)) or Err(panic text).
pub fn bfs<F>(alphabet_len: usize, cap: usize, max_failures: usize, run: F) -> Outcome
where
    F: Fn(&[u32]) -> Result<(String, bool), String> + Sync,
{
    let mut samples: Vec<(String, String)> = Vec::new();
    let mut first = bfs_pass(alphabet_len, cap, max_failures, &run, &[], Some(&mut samples));
    if !first.closed {
        let mask = counter_mask(&samples);
        let masked = mask.iter().filter(|m| **m).count();
        if masked > 0 {
            let second = bfs_pass(alphabet_len, cap, max_failures, &run, &mask, None);
            first.masked_tokens = masked;
            for f in &second.failures {
                if first.failures.len() < max_failures * 2 && !first.failures.contains(f) {
                    first.failures.push(f.clone());
                }
            }
            first.histories_run += second.histories_run;
            first.steps += second.steps;
            first.masked_pass = Some(Box::new(second));
        }
    }
    first
}

fn bfs_pass<F>(alphabet_len: usize, cap: usize, max_failures: usize, run: &F, mask: &[bool], mut samples: Option<&mut Vec<(String, String)>>) -> Outcome
where
    F: Fn(&[u32]) -> Result<(String, bool), String> + Sync,
{
    let mut parent: Vec<Option<(u32, u32)>> = vec![None];
    let mut depth: Vec<u32> = vec![0];
    let mut raw_fp: Vec<String> = Vec::new();
    let mut index: HashMap<String, u32> = HashMap::new();
    let root_fp = match run(&[]) {
        Ok((fp, _)) => fp,
        Err(_) => String::from("<panic at construction>"),
    };
    index.insert(apply_mask(&root_fp, mask), 0);
    raw_fp.push(root_fp);
    let hist_of = |parent: &Vec<Option<(u32, u32)>>, mut i: u32| -> Vec<u32> {
        let mut v = Vec::new();
        while let Some((p, s)) = parent[i as usize] {
            v.push(s);
            i = p;
        }
        v.reverse();
        v
    };
    let mut out = Outcome::default();
    let mut level: Vec<u32> = vec![0];
    while !level.is_empty() {
        let jobs: Vec<(u32, u32)> = level.iter().flat_map(|s| (0..alphabet_len as u32).map(move |a| (*s, a))).collect();
        let results: Vec<(u32, u32, Result<(String, bool), String>, usize)> = jobs
            .par_iter()
            .map(|(s, a)| {
                let mut h = hist_of(&parent, *s);
                h.push(*a);
                let r = run(&h);
                (*s, *a, r, h.len())
            })
            .collect();
        let mut next_level = Vec::new();
        for (s, a, r, len) in results {
            out.histories_run += 1;
            out.steps += len as u64;
            match r {
                Ok((fp, true)) => {
                    if let Some(sm) = samples.as_deref_mut() {
                        if sm.len() < 4000 {
                            sm.push((raw_fp[s as usize].clone(), fp.clone()));
                        }
                    }
                    let key = apply_mask(&fp, mask);
                    if !index.contains_key(&key) && parent.len() < cap {
                        let id = parent.len() as u32;
                        index.insert(key, id);
                        parent.push(Some((s, a)));
                        raw_fp.push(fp);
                        depth.push(depth[s as usize] + 1);
                        out.max_depth = out.max_depth.max(depth[id as usize] as usize);
                        next_level.push(id);
                    }
                }
                Ok((_, false)) | Err(_) => {
                    if out.failures.len() < max_failures {
                        let mut h = hist_of(&parent, s);
                        h.push(a);
                        out.failures.push(h);
                    }
                }
            }
        }
        if parent.len() >= cap {
            out.states = parent.len();
            out.closed = false;
            return out;
        }
        level = next_level;
    }
    out.states = parent.len();
    out.closed = true;
    out
}

pub fn outcome_json(o: &Outcome) -> serde_json::Value {
    let mut v = serde_json::json!({"states_found": o.states, "closed": o.closed, "max_depth": o.max_depth, "histories_replayed": o.histories_run, "steps_replayed": o.steps, "failing(sampled)": o.failures.len()});
    if let Some(m) = &o.masked_pass {
        v["counter_like_tokens_masked"] = serde_json::json!(o.masked_tokens);
        v["masked_pass"] = serde_json::json!({"states_found": m.states, "closed": m.closed, "max_depth": m.max_depth});
    }
    v
}
