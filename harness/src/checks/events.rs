//! Event-decoder checks: C04 (modifier tracking) and C14 (one decoded key per press, via the
//! current layout, modifier state and mode).
use crate::gen::{self, FlatEv};
use crate::model::mods::{self as mm, Expect};
use crate::prop::run_prop;
use crate::report::{fp, guard, panic_sig, Run, Violation};
use crate::universe::*;
use serde_json::{json, Value};
use std::cell::RefCell;

// ---------------------------------------------------------------------------------------
// Argument-encoding layout: the returned character says exactly which layout object, key,
// modifier record and mode were consulted.
// ---------------------------------------------------------------------------------------
#[derive(Clone, Copy, Debug, PartialEq, Eq)]
pub struct EncLayout {
    pub id: u8, // 0..=3
}
pub fn encode_args(id: u8, k: KeyCode, bits: u16, h: HandleControl) -> char {
    let v = 0x10000u32 + ((id as u32 & 3) << 18) + ((key_idx(k) as u32 & 0xFF) << 10) + ((bits as u32 & 0x1FF) << 1) + mode_idx(h) as u32;
    char::from_u32(v).expect("harness: encoding layout produced an invalid char")
}
pub fn decode_args(c: char) -> Option<(u8, KeyCode, u16, HandleControl)> {
    let v = (c as u32).checked_sub(0x10000)?;
    let id = (v >> 18) as u8;
    let idx = ((v >> 10) & 0xFF) as usize;
    let bits = ((v >> 1) & 0x1FF) as u16;
    let h = MODES[(v & 1) as usize];
    if id > 3 || idx >= ALL_KEYS.len() {
        return None;
    }
    Some((id, ALL_KEYS[idx], bits, h))
}
impl KeyboardLayout for EncLayout {
    fn map_keycode(&self, k: KeyCode, m: &Modifiers, h: HandleControl) -> DecodedKey {
        DecodedKey::Unicode(encode_args(self.id, k, mod_bits(m), h))
    }
}
fn describe_out(o: &Option<DecodedKey>) -> String {
    match o {
        Some(DecodedKey::Unicode(c)) => match decode_args(*c) {
            Some((id, k, b, h)) => format!("layout#{}({:?},{},{})", id, k, mods_str(b), mode_name(h)),
            None => format!("Some(U+{:04X})", *c as u32),
        },
        other => odk_str(other),
    }
}

pub fn history_json(h: &[FlatEv]) -> Value {
    Value::Array(h.iter().map(gen::flat_ev_json).collect())
}
pub fn history_from_json(v: &Value) -> Vec<FlatEv> {
    v.as_array().map(|a| a.iter().filter_map(gen::flat_ev_from_json).collect()).unwrap_or_default()
}
fn hist_text(h: &[FlatEv]) -> String {
    h.iter()
        .map(|f| match f {
            FlatEv::Key(k, s) => format!("{:?}{}", k, state_arrow(*s)),
            FlatEv::SetMode(m) => format!("mode={}", mode_name(*m)),
            FlatEv::ChangeLayout(i) => format!("layout={}", i),
        })
        .collect::<Vec<_>>()
        .join(" ")
}

#[derive(Clone, Copy, PartialEq, Eq)]
pub enum Oracle {
    Mods,   // C04
    Output, // C14
}

/// First deviation of an event history, if any: (index, signature, sentence).
type Dev = Option<(usize, String, String)>;

/// Run a history on a Keyboard<EncLayout, Set2> (ChangeLayout is a no-op there: Keyboard has no
/// such setter) and on a bare EventDecoder<EncLayout> (all operations), checking after every
/// step the armed oracle. `start_mode` is the constructor argument.
fn history_dev(h: &[FlatEv], start_mode: HandleControl, oracle: Oracle) -> Result<Dev, String> {
    guard(|| {
        let mut kb = Keyboard::new(ScancodeSet2::new(), EncLayout { id: 0 }, start_mode);
        let mut ed = EventDecoder::new(EncLayout { id: 0 }, start_mode);
        let mut model = mm::INITIAL_MODS;
        let mut mode = start_mode;
        let mut ed_layout = 0u8;
        // initial state
        if oracle == Oracle::Mods && mod_bits(kb.get_modifiers()) != model {
            return Some((0, format!("mods:initial:want={}:got={}", mods_str(model), mods_str(mod_bits(kb.get_modifiers()))), format!("a fresh Keyboard reports modifiers {} instead of {}", mods_str(mod_bits(kb.get_modifiers())), mods_str(model))));
        }
        for (i, f) in h.iter().enumerate() {
            match f {
                FlatEv::SetMode(m) => {
                    kb.set_ctrl_handling(*m);
                    ed.set_ctrl_handling(*m);
                    mode = *m;
                    if oracle == Oracle::Output && (kb.get_ctrl_handling() != *m || ed.get_ctrl_handling() != *m) {
                        return Some((i, format!("out:set_ctrl_handling({}):getter-disagrees", mode_name(*m)), format!("after set_ctrl_handling({}) the getter still reports the old mode", mode_name(*m))));
                    }
                }
                FlatEv::ChangeLayout(id) => {
                    ed_layout = *id & 3;
                    ed.change_layout(EncLayout { id: ed_layout });
                }
                FlatEv::Key(k, s) => {
                    let pre_real = mod_bits(kb.get_modifiers());
                    let pre_model = model;
                    let ok = kb.process_keyevent(KeyEvent::new(*k, *s));
                    let oe = ed.process_keyevent(KeyEvent::new(*k, *s));
                    model = mm::step(model, *k, *s);
                    let post_real = mod_bits(kb.get_modifiers());
                    match oracle {
                        Oracle::Mods => {
                            if post_real != model {
                                return Some((
                                    i,
                                    format!("mods:state={}:mode={}:event={}({:?}):want={}:got={}", mods_str(pre_model), mode_name(mode), state_name(*s), k, mods_str(model), mods_str(post_real)),
                                    format!("Keyboard: in modifier state {} (mode {}), the event {} {:?} leaves get_modifiers() = {}; the history of modifier events requires {}", mods_str(pre_model), mode_name(mode), state_name(*s), k, mods_str(post_real), mods_str(model)),
                                ));
                            }
                            // modifiers handed to the layout (both objects) on an ordinary press
                            if *s == KeyState::Down && !mm::is_modifier_key(*k) {
                                for (name, out) in [("Keyboard", &ok), ("EventDecoder", &oe)] {
                                    if let Some(DecodedKey::Unicode(c)) = out {
                                        if let Some((_, _, passed, _)) = decode_args(*c) {
                                            if passed != model {
                                                return Some((
                                                    i,
                                                    format!("mods:passed-to-layout:{}:state={}:event=Down({:?}):want={}:got={}", name, mods_str(pre_model), k, mods_str(model), mods_str(passed)),
                                                    format!("{}: pressing {:?} in modifier state {} hands the layout the modifiers {} instead of {}", name, k, mods_str(pre_model), mods_str(passed), mods_str(model)),
                                                ));
                                            }
                                        }
                                    }
                                }
                            }
                        }
                        Oracle::Output => {
                            // "the current modifier state" is the one the history of modifier
                            // events defines (C04's model): a press made while the hidden
                            // Pause-Ctrl is *held* must yield PauseBreak even if the decoder
                            // forgot the flag.
                            for (name, out, lid) in [("Keyboard", &ok, 0u8), ("EventDecoder", &oe, ed_layout)] {
                                let via = Some(DecodedKey::Unicode(encode_args(lid, *k, model, mode)));
                                let (want, alt): (Option<DecodedKey>, Option<Option<DecodedKey>>) = match mm::expect_output(pre_model, *k, *s) {
                                    Expect::Nothing => (None, None),
                                    Expect::Raw(r) => (Some(DecodedKey::RawKey(r)), None),
                                    Expect::ViaLayout => (via, None),
                                    Expect::RawOrViaLayout(r) => (via, Some(Some(DecodedKey::RawKey(r)))),
                                };
                                if *out != want && Some(out.clone()) != alt {
                                    return Some((
                                        i,
                                        format!("out:{}:state={}:mode={}:layout#{}:event={}({:?}):want={}:got={}", name, mods_str(pre_model), mode_name(mode), lid, state_name(*s), k, describe_out(&want).replace(' ', ""), describe_out(out).replace(' ', "")),
                                        format!("{}: in modifier state {} (mode {}, layout #{}), the event {} {:?} returns {}; required: {}", name, mods_str(pre_model), mode_name(mode), lid, state_name(*s), k, describe_out(out), describe_out(&want)),
                                    ));
                                }
                            }
                            let _ = (pre_real, post_real);
                        }
                    }
                }
            }
        }
        None
    })
}

pub fn eval_history(run: &mut Run, h: &[FlatEv], start_mode: HandleControl, oracle: Oracle) {
    run.eval(1);
    let mk_case = |n: usize| json!({"kind":"ev_history","start_mode":mode_name(start_mode),"ops":history_json(&h[..n]),"text":hist_text(&h[..n])});
    match history_dev(h, start_mode, oracle) {
        Err(p) => run.violation(Violation { sig: format!("events:{}", panic_sig(&p)), what: format!("panic while processing the event history [{}]: {}", hist_text(h), p), case: mk_case(h.len()) }),
        Ok(Some((i, sig, what))) => run.violation(Violation { sig, what: format!("{} — history: [{}]", what, hist_text(&h[..(i + 1).min(h.len())])), case: mk_case((i + 1).min(h.len())) }),
        Ok(None) => {}
    }
}

/// Depth-2 closure from the initial state and pumping (the same event / pattern repeated far
/// beyond 2^16 steps): looks for state outside the nine-flag record + mode.
fn pairs_and_pumping(run: &mut Run, oracle: Oracle) {
    let mut n = 0u64;
    for mode in MODES {
        for &k1 in ALL_KEYS {
            for s1 in KEY_STATES {
                // one history per first event: all second events are appended one after the
                // other is not sound (they change state), so each pair is its own run
                for &k2 in ALL_KEYS {
                    for s2 in KEY_STATES {
                        let h = [FlatEv::Key(k1, s1), FlatEv::Key(k2, s2), FlatEv::Key(KeyCode::A, KeyState::Down)];
                        eval_history(run, &h, mode, oracle);
                        n += 1;
                    }
                }
            }
        }
    }
    run.nontrivial_enum(n);
    run.part("all_ordered_event_pairs_from_initial_state", json!({"cases": n}));
    let mut steps = 0u64;
    for &k in ALL_KEYS {
        for st in KEY_STATES {
            let h = vec![FlatEv::Key(k, st); 700];
            eval_history(run, &h, HandleControl::MapLettersToUnicode, oracle);
            steps += 700;
        }
    }
    use KeyCode::*;
    use KeyState::*;
    let patterns: Vec<Vec<FlatEv>> = vec![
        vec![FlatEv::Key(A, Down), FlatEv::Key(A, Up)],
        vec![FlatEv::Key(LShift, Down), FlatEv::Key(A, Down), FlatEv::Key(A, Up), FlatEv::Key(LShift, Up)],
        vec![FlatEv::Key(CapsLock, Down), FlatEv::Key(CapsLock, Up), FlatEv::Key(X, Down)],
        vec![FlatEv::Key(NumpadLock, Down), FlatEv::Key(NumpadLock, Up), FlatEv::Key(Numpad7, Down)],
        vec![FlatEv::Key(RControl2, Down), FlatEv::Key(NumpadLock, Down), FlatEv::Key(RControl2, Up), FlatEv::Key(NumpadLock, Up)],
        vec![FlatEv::Key(LControl, Down), FlatEv::Key(RControl, Down), FlatEv::Key(LControl, Up), FlatEv::Key(C, Down), FlatEv::Key(RControl, Up)],
        vec![FlatEv::Key(RAltGr, Down), FlatEv::Key(Q, Down), FlatEv::Key(RAltGr, Up), FlatEv::Key(LAlt, Down), FlatEv::Key(LAlt, Up)],
        vec![FlatEv::Key(A, Down)],
        vec![FlatEv::Key(LShift, Down)],
        vec![FlatEv::Key(PowerOnTestOk, SingleShot), FlatEv::Key(A, Down)],
        vec![FlatEv::SetMode(HandleControl::Ignore), FlatEv::Key(A, Down), FlatEv::SetMode(HandleControl::MapLettersToUnicode), FlatEv::Key(A, Down)],
    ];
    for pat in &patterns {
        let reps = 70_000 / pat.len() + 1;
        let h: Vec<FlatEv> = pat.iter().copied().cycle().take(reps * pat.len()).collect();
        steps += h.len() as u64;
        eval_history(run, &h, HandleControl::MapLettersToUnicode, oracle);
        run.nontrivial_fp(fp(&("pump", hist_text(pat))));
    }
    run.part("pumping", json!({"events_fed": steps, "single_event_repeats": 700, "patterns": patterns.iter().map(|p| hist_text(p)).collect::<Vec<_>>(), "pattern_steps": ">= 70000 each"}));
}

/// Debug-fingerprint BFS over every key event + the configuration setters: explores every
/// state the decoder can be driven into (including state outside the nine flags), checking the
/// armed oracle on every replayed history.
fn explore_states(run: &mut Run, oracle: Oracle) {
    let mut alphabet: Vec<FlatEv> = Vec::new();
    for &k in ALL_KEYS {
        for st in KEY_STATES {
            alphabet.push(FlatEv::Key(k, st));
        }
    }
    alphabet.push(FlatEv::SetMode(HandleControl::MapLettersToUnicode));
    alphabet.push(FlatEv::SetMode(HandleControl::Ignore));
    alphabet.push(FlatEv::ChangeLayout(1));
    let cap = run.tier.pick(12_000usize, 150_000usize);
    let start = HandleControl::MapLettersToUnicode;
    let out = crate::explore::bfs(alphabet.len(), cap, 8, |h| {
        let hist: Vec<FlatEv> = h.iter().map(|i| alphabet[*i as usize]).collect();
        let fp = guard(|| {
            let mut kb = Keyboard::new(ScancodeSet2::new(), EncLayout { id: 0 }, start);
            let mut ed = EventDecoder::new(EncLayout { id: 0 }, start);
            for f in &hist {
                match f {
                    FlatEv::Key(k, s) => {
                        kb.process_keyevent(KeyEvent::new(*k, *s));
                        ed.process_keyevent(KeyEvent::new(*k, *s));
                    }
                    FlatEv::SetMode(m) => {
                        kb.set_ctrl_handling(*m);
                        ed.set_ctrl_handling(*m);
                    }
                    FlatEv::ChangeLayout(i) => { let _ = ed.change_layout(EncLayout { id: *i & 3 }); }
                }
            }
            format!("{:?}|{:?}", kb, ed)
        })?;
        let dev = history_dev(&hist, start, oracle)?;
        Ok((fp, dev.is_none()))
    });
    run.eval(out.histories_run);
    run.nontrivial_enum(out.histories_run);
    for f in &out.failures {
        let hist: Vec<FlatEv> = f.iter().map(|i| alphabet[*i as usize]).collect();
        eval_history(run, &hist, start, oracle);
    }
    run.part("state_exploration", json!({"alphabet": alphabet.len(), "states_found": out.states, "state_cap": cap, "closed": out.closed, "detail": crate::explore::outcome_json(&out), "max_depth": out.max_depth, "histories_replayed": out.histories_run, "events_replayed": out.steps, "failing_histories(sampled)": out.failures.len()}));
}

/// Deep-history families for the event decoder (oracle armed as given, every step checked):
///  G2a  long typing with a modifier held: M down, 3000 presses cycling over K distinct keys
///  G2b  wrap probes: K, A^n, B, K with n around 2^8 (thorough: 2^16) over modifier events
///  G2c  two-phase grammar: S A^i B^j K over a 30-symbol event alphabet
fn deep_histories(run: &mut Run, oracle: Oracle) {
    use KeyCode::*;
    use KeyState::*;
    let mut fam: Vec<Vec<FlatEv>> = Vec::new();
    let ordinary: Vec<KeyCode> = ALL_KEYS.iter().copied().filter(|k| !mm::is_modifier_key(*k)).collect();
    // G2a
    let holds: Vec<Vec<FlatEv>> = vec![vec![], vec![FlatEv::Key(LShift, Down)], vec![FlatEv::Key(RControl, Down)], vec![FlatEv::Key(LAlt, Down)], vec![FlatEv::Key(RAltGr, Down)], vec![FlatEv::Key(CapsLock, Down), FlatEv::Key(CapsLock, Up)], vec![FlatEv::Key(RShift, Down), FlatEv::Key(LControl, Down)]];
    for h in &holds {
        for kk in [1usize, 5, 12, 26, 40] {
            for taps in [false, true] {
                let mut v = h.clone();
                for i in 0..3000usize {
                    let k = ordinary[(i % kk) * 2 % ordinary.len()];
                    v.push(FlatEv::Key(k, Down));
                    if taps { v.push(FlatEv::Key(k, Up)); }
                }
                // release what is held and look again
                for f in h.iter().rev() { if let FlatEv::Key(k, Down) = f { v.push(FlatEv::Key(*k, Up)); } }
                v.push(FlatEv::Key(A, Down));
                fam.push(v);
            }
        }
    }
    let g2a = fam.len();
    // G2b
    let modev: Vec<FlatEv> = gen::MOD_KEYS.iter().flat_map(|k| [FlatEv::Key(*k, Down), FlatEv::Key(*k, Up)]).chain([FlatEv::SetMode(HandleControl::Ignore), FlatEv::SetMode(HandleControl::MapLettersToUnicode)]).collect();
    let ns: Vec<usize> = if run.tier == crate::report::Tier::Thorough { vec![254, 255, 256, 257, 258, 65535, 65536, 65537] } else { vec![254, 255, 256, 257, 258] };
    for a in &modev {
        for b in &modev {
            for &n in &ns {
                if n > 1000 && !(matches!(a, FlatEv::Key(CapsLock | LShift | NumpadLock, Down))) { continue; }
                for k in [Key1, A, Numpad7] {
                    let mut v = vec![FlatEv::Key(k, Down), FlatEv::Key(k, Up)];
                    // alternate A with its opposite so that every A is a real state change
                    let opp = match a { FlatEv::Key(kk, Down) => Some(FlatEv::Key(*kk, Up)), FlatEv::Key(kk, Up) => Some(FlatEv::Key(*kk, Down)), FlatEv::SetMode(m) => Some(FlatEv::SetMode(if *m == HandleControl::Ignore { HandleControl::MapLettersToUnicode } else { HandleControl::Ignore })), _ => None };
                    for i in 0..n {
                        let lock = matches!(a, FlatEv::Key(CapsLock | NumpadLock, Down));
                        v.push(if lock || i % 2 == 0 { *a } else { opp.unwrap_or(*a) });
                    }
                    v.push(*b);
                    v.push(FlatEv::Key(k, Down));
                    fam.push(v);
                }
            }
        }
    }
    let g2b = fam.len() - g2a;
    // G2c
    let mut alpha: Vec<FlatEv> = modev.clone();
    alpha.extend([FlatEv::Key(A, Down), FlatEv::Key(A, Up), FlatEv::Key(Numpad7, Down), FlatEv::Key(Key1, Down), FlatEv::Key(TooManyKeys, SingleShot), FlatEv::Key(PowerOnTestOk, SingleShot), FlatEv::Key(F1, Down), FlatEv::Key(Oem7, Down), FlatEv::ChangeLayout(1), FlatEv::Key(PauseBreak, Down)]);
    let setups: Vec<Vec<FlatEv>> = vec![vec![], vec![FlatEv::Key(LShift, Down)], vec![FlatEv::Key(RControl, Down)], vec![FlatEv::Key(RControl2, Down)]];
    for s0 in &setups {
        for a in &alpha {
            for b in &alpha {
                for (i, j) in [(300usize, 0usize), (300, 5), (5, 300), (150, 150)] {
                    let mut v = s0.clone();
                    v.extend(std::iter::repeat(*a).take(i));
                    v.extend(std::iter::repeat(*b).take(j));
                    v.extend([FlatEv::Key(A, Down), FlatEv::Key(NumpadLock, Down), FlatEv::Key(Key1, Down)]);
                    fam.push(v);
                }
            }
        }
    }
    let g2c = fam.len() - g2a - g2b;
    // G2b': the same wrap probes with the distinguishing event BEFORE the n fillers
    for a in &modev {
        if !matches!(a, FlatEv::Key(CapsLock | NumpadLock | LShift | RControl | RAltGr, Down) | FlatEv::SetMode(_)) { continue; }
        for b in &modev {
            for n in [254usize, 255, 256, 257, 258, 510, 511, 512, 513] {
                for k in [Key1, A, Numpad7] {
                    let mut v = vec![FlatEv::Key(k, Down), FlatEv::Key(k, Up), *b];
                    let opp = match a { FlatEv::Key(kk, Down) => Some(FlatEv::Key(*kk, Up)), FlatEv::SetMode(m) => Some(FlatEv::SetMode(if *m == HandleControl::Ignore { HandleControl::MapLettersToUnicode } else { HandleControl::Ignore })), _ => None };
                    for i in 0..n {
                        let lock = matches!(a, FlatEv::Key(CapsLock | NumpadLock, Down));
                        v.push(if lock || i % 2 == 0 { *a } else { opp.unwrap_or(*a) });
                    }
                    v.push(FlatEv::Key(k, Down));
                    fam.push(v);
                }
            }
        }
    }
    // G2d: every cycle of <= 3 events over the 20 modifier events/setters (and of 4 over the 10
    // Ctrl/Alt/AltGr/Shift ones) repeated 12 times, then every prefix of the cycle + a probe press
    {
        let small: Vec<FlatEv> = modev.iter().copied().filter(|f| matches!(f, FlatEv::Key(LControl | RControl | LAlt | RAltGr | LShift, _))).collect();
        let mut cycles: Vec<Vec<FlatEv>> = Vec::new();
        for a in &modev { for b in &modev { cycles.push(vec![*a, *b]); for c in &modev { cycles.push(vec![*a, *b, *c]); } } }
        for a in &small { for b in &small { for c in &small { for d in &small { cycles.push(vec![*a, *b, *c, *d]); } } } }
        for cyc in &cycles {
            let body: Vec<FlatEv> = cyc.iter().copied().cycle().take(cyc.len() * 12).collect();
            for p in 0..cyc.len() {
                let mut v = body.clone();
                v.extend(cyc[..p].iter().copied());
                for k in [Q, Key1, Numpad7] {
                    v.push(FlatEv::Key(k, Down));
                    v.push(FlatEv::Key(k, Up));
                }
                v.push(FlatEv::Key(NumpadLock, Down));
                fam.push(v);
            }
        }
    }
    // G2e: N distinct keys held at once, an event X, the N keys released (same / reverse order)
    {
        let all: Vec<KeyCode> = ALL_KEYS.iter().copied().filter(|k| !mm::is_modifier_key(*k)).collect();
        for n in (1..=20usize).chain([31, 32, 33, 63, 64, 65, 100, all.len()]) {
            let n = n.min(all.len());
            for x in modev.iter().take(18) {
                for rev in [false, true] {
                    let mut v: Vec<FlatEv> = all[..n].iter().map(|k| FlatEv::Key(*k, Down)).collect();
                    v.push(*x);
                    let mut ups: Vec<FlatEv> = all[..n].iter().map(|k| FlatEv::Key(*k, Up)).collect();
                    if rev { ups.reverse(); }
                    v.extend(ups);
                    v.push(FlatEv::Key(A, Down));
                    v.push(FlatEv::Key(NumpadLock, Down));
                    fam.push(v);
                }
            }
        }
        // every key of the keyboard down at once (modifiers included), then all up
        let mut v: Vec<FlatEv> = ALL_KEYS.iter().map(|k| FlatEv::Key(*k, Down)).collect();
        v.extend(ALL_KEYS.iter().map(|k| FlatEv::Key(*k, Up)));
        v.push(FlatEv::Key(A, Down));
        fam.push(v);
    }
    let g2d = fam.len() - g2a - g2b - g2c;
    use rayon::prelude::*;
    let start = HandleControl::MapLettersToUnicode;
    let bad: Vec<usize> = fam.par_iter().enumerate().filter_map(|(i, v)| match history_dev(v, start, oracle) { Ok(None) => None, _ => Some(i) }).collect();
    run.eval(fam.len() as u64);
    run.nontrivial_enum(fam.len() as u64);
    for i in bad.iter().take(8) {
        eval_history(run, &fam[*i], start, oracle);
    }
    run.total_violating_cases += bad.len().saturating_sub(8) as u64;
    run.part("deep_history_families", json!({"long_typing_with_modifier_held(3000 presses)": g2a, "wrap_probes K.A^n.B.K": g2b, "S.A^i.B^j.probe": g2c, "wrap probes (event first), cycles of <=4 events x12 + prefix + probe, N keys held at once": g2d, "events_total": fam.iter().map(|v| v.len() as u64).sum::<u64>(), "failing": bad.len()}));
}

/// Pipeline layer: operation sequences (bits, words, bytes, clear, events) through ONE Keyboard
/// object, every key event the scancode stage decodes is passed to process_keyevent as a driver
/// would. The event-decoder oracle is applied to the history of events that were actually
/// decoded (so this stays independent of C01/C02), but inside the same object - what a frame
/// error counter or a clear() does to the modifiers shows up here.
fn pipeline_dev(ops: &[gen::Op], start_mode: HandleControl, oracle: Oracle) -> Result<Option<(usize, String, String)>, String> {
    use gen::Op;
    guard(|| {
        let mut kb = Keyboard::new(ScancodeSet2::new(), EncLayout { id: 0 }, start_mode);
        let mut model = mm::INITIAL_MODS;
        let mut mode = start_mode;
        let mut feed = |kb: &mut Keyboard<EncLayout, ScancodeSet2>, model: &mut u16, mode: HandleControl, i: usize, e: KeyEvent| -> Option<(usize, String, String)> {
            let pre = *model;
            let out = kb.process_keyevent(e.clone());
            *model = mm::step(*model, e.code, e.state);
            match oracle {
                Oracle::Mods => {
                    let real = mod_bits(kb.get_modifiers());
                    if real != *model {
                        return Some((i, format!("mods:pipeline:state={}:event={}({:?}):want={}:got={}", mods_str(pre), state_name(e.state), e.code, mods_str(*model), mods_str(real)), format!("in modifier state {} the decoded event {} {:?} leaves get_modifiers() = {}; the history of modifier events requires {}", mods_str(pre), state_name(e.state), e.code, mods_str(real), mods_str(*model))));
                    }
                }
                Oracle::Output => {
                    let via = Some(DecodedKey::Unicode(encode_args(0, e.code, *model, mode)));
                    let (want, alt): (Option<DecodedKey>, Option<Option<DecodedKey>>) = match mm::expect_output(pre, e.code, e.state) {
                        Expect::Nothing => (None, None),
                        Expect::Raw(r) => (Some(DecodedKey::RawKey(r)), None),
                        Expect::ViaLayout => (via, None),
                        Expect::RawOrViaLayout(r) => (via, Some(Some(DecodedKey::RawKey(r)))),
                    };
                    if out != want && Some(out.clone()) != alt {
                        return Some((i, format!("out:pipeline:state={}:mode={}:event={}({:?}):want={}:got={}", mods_str(pre), mode_name(mode), state_name(e.state), e.code, describe_out(&want).replace(' ', ""), describe_out(&out).replace(' ', "")), format!("in modifier state {} (mode {}) the decoded event {} {:?} returns {}; required: {}", mods_str(pre), mode_name(mode), state_name(e.state), e.code, describe_out(&out), describe_out(&want))));
                    }
                }
            }
            None
        };
        for (i, op) in ops.iter().enumerate() {
            let decoded = match op {
                Op::Bit(b) => kb.add_bit(*b).ok().flatten(),
                Op::Word(w) => kb.add_word(*w).ok().flatten(),
                Op::Byte(b) => kb.add_byte(*b).ok().flatten(),
                Op::Clear => { kb.clear(); None }
                Op::SetCtrl(m) => { kb.set_ctrl_handling(*m); mode = *m; None }
                Op::Event(k, s) => Some(KeyEvent::new(*k, *s)),
            };
            if let Some(e) = decoded {
                if let Some(d) = feed(&mut kb, &mut model, mode, i, e) {
                    return Some(d);
                }
            }
            if oracle == Oracle::Mods && mod_bits(kb.get_modifiers()) != model {
                return Some((i, format!("mods:pipeline:op-without-event-changed-modifiers:want={}:got={}", mods_str(model), mods_str(mod_bits(kb.get_modifiers()))), format!("an operation that decodes no key event changed get_modifiers() from {} to {}", mods_str(model), mods_str(mod_bits(kb.get_modifiers())))));
            }
        }
        None
    })
}

fn pipeline_layer(run: &mut Run, oracle: Oracle) {
    use rayon::prelude::*;
    let (mut fam, g4a) = crate::checks::kbd::deep_ops::<ScancodeSet2>();
    // every modifier record (reached by its witness history of key events), then one operation
    // that decodes no key event - clear(), a rejected word, a lone prefix byte / word, a stray
    // bit, a mode change - then an ordinary press: the record must survive the operation
    let before = fam.len();
    {
        use crate::model::frame::encode;
        use gen::Op;
        let probes: Vec<Vec<Op>> = vec![
            vec![Op::Clear],
            vec![Op::Word(encode(0x1C) ^ 0x200)],
            vec![Op::Word(0x7FF)],
            vec![Op::Byte(0xE0), Op::Clear],
            vec![Op::Word(encode(0xF0)), Op::Clear],
            vec![Op::Bit(false), Op::Bit(true), Op::Clear],
            vec![Op::SetCtrl(HandleControl::Ignore), Op::SetCtrl(HandleControl::MapLettersToUnicode)],
        ];
        for bits in 0..N_MODS {
            let w: Vec<Op> = mm::witness_history(bits).into_iter().map(|(k, s)| Op::Event(k, s)).collect();
            for p in &probes {
                let mut v = w.clone();
                v.extend(p.iter().cloned());
                v.push(Op::Event(KeyCode::A, KeyState::Down));
                fam.push(v);
            }
        }
    }
    let nonevent = fam.len() - before;
    let mode = HandleControl::MapLettersToUnicode;
    let bad: Vec<usize> = fam.par_iter().enumerate().filter_map(|(i, v)| match pipeline_dev(v, mode, oracle) { Ok(None) => None, _ => Some(i) }).collect();
    run.eval(fam.len() as u64);
    run.nontrivial_enum(fam.len() as u64);
    for i in bad.iter().take(6) {
        let ops = &fam[*i];
        match pipeline_dev(ops, mode, oracle) {
            Ok(Some((k, sig, what))) => {
                let shown = &ops[..=k];
                run.violation(Violation {
                    sig,
                    what: format!("Keyboard pipeline (frames/bytes in, every decoded event processed): {} - after {} operations, the last ones being [{}]", what, k + 1, crate::checks::kbd::ops_text(&shown[shown.len().saturating_sub(40)..])),
                    case: json!({"kind":"kbd_pipeline","start_mode":mode_name(mode),"ops":shown.iter().map(gen::op_json).collect::<Vec<_>>()}),
                });
            }
            Err(p) => run.violation(Violation { sig: format!("pipeline:{}", panic_sig(&p)), what: format!("panic in the Keyboard pipeline: {}", p), case: json!({"kind":"kbd_pipeline","start_mode":mode_name(mode),"ops":ops.iter().map(gen::op_json).collect::<Vec<_>>()}) }),
            Ok(None) => {}
        }
    }
    run.total_violating_cases += bad.len().saturating_sub(6) as u64;
    run.part("keyboard_pipeline_layer", json!({"S.A^i.B^j.T sequences": g4a, "noisy_line_workloads": fam.len() - g4a - nonevent, "every modifier record x operation without a key event (clear, rejected word, lone prefix + clear, stray bits + clear, mode change) x press": nonevent, "failing": bad.len()}));
}

fn witness(bits: u16) -> Vec<FlatEv> {
    mm::witness_history(bits).into_iter().map(|(k, s)| FlatEv::Key(k, s)).collect()
}

/// drive a fresh Keyboard to modifier state `bits`; true if it arrived
fn arrives(bits: u16, mode: HandleControl) -> bool {
    guard(|| {
        let mut kb = Keyboard::new(ScancodeSet2::new(), EncLayout { id: 0 }, mode);
        for (k, s) in mm::witness_history(bits) {
            kb.process_keyevent(KeyEvent::new(k, s));
        }
        mod_bits(kb.get_modifiers()) == bits
    })
    .unwrap_or(false)
}

fn exhaustive_transitions(run: &mut Run, oracle: Oracle) {
    let mut transitions = 0u64;
    let mut unreachable = 0u64;
    for mode in MODES {
        for bits in 0..N_MODS {
            let w = witness(bits);
            if !arrives(bits, mode) {
                unreachable += 1;
                if oracle == Oracle::Mods {
                    // failure to arrive is itself a violation of C04: report through the evaluator
                    eval_history(run, &w, mode, Oracle::Mods);
                    if run.violations.is_empty() {
                        run.violation(Violation {
                            sig: format!("mods:unreachable:{}", mods_str(bits)),
                            what: format!("the witness history for modifier state {} does not arrive there", mods_str(bits)),
                            case: json!({"kind":"ev_history","start_mode":mode_name(mode),"ops":history_json(&w)}),
                        });
                    }
                }
                continue;
            }
            for &k in ALL_KEYS {
                for st in KEY_STATES {
                    let mut h = w.clone();
                    h.push(FlatEv::Key(k, st));
                    eval_history(run, &h, mode, oracle);
                    transitions += 1;
                    let nontrivial = match oracle {
                        Oracle::Mods => mm::is_modifier_key(k) || (bits & !M_NUMLOCK).count_ones() >= 2,
                        Oracle::Output => st == KeyState::Down && (bits != mm::INITIAL_MODS),
                    };
                    if nontrivial {
                        run.nontrivial_enum(1);
                    }
                    if transitions % 38_117 == 0 {
                        let hh = h.clone();
                        run.sample(|| {
                            let mut kb = Keyboard::new(ScancodeSet2::new(), EncLayout { id: 0 }, mode);
                            let mut last = None;
                            for f in &hh {
                                if let FlatEv::Key(k, s) = f {
                                    last = kb.process_keyevent(KeyEvent::new(*k, *s));
                                }
                            }
                            json!({"layer":"exhaustive-transition","mode":mode_name(mode),"history":hist_text(&hh),"returned":describe_out(&last),"get_modifiers":mods_str(mod_bits(kb.get_modifiers()))})
                        });
                    }
                }
            }
        }
    }
    run.part("transition_relation", json!({"states": 1024, "states_not_reached_by_witness_history": unreachable, "transitions": transitions, "keys": ALL_KEYS.len()}));
}

#[derive(Default)]
struct HistStats {
    cases: u64,
    events: u64,
    with_pause: u64,
    with_3_mod_keys: u64,
    with_config_change: u64,
    nontrivial: Vec<u64>,
    samples: Vec<Value>,
}

fn random_histories(run: &mut Run, oracle: Oracle, cases: u32, salt: u64) {
    let stats = RefCell::new(HistStats::default());
    let outcome = run_prop(run.seed, salt, cases, (proptest::prelude::any::<bool>(), gen::ev_history(200, 8)), |(m, ops), counting| {
        let start = if *m { HandleControl::MapLettersToUnicode } else { HandleControl::Ignore };
        let h: Vec<FlatEv> = ops.iter().flat_map(gen::ev_op_flat).collect();
        let r = history_dev(&h, start, oracle);
        if counting {
            let mut st = stats.borrow_mut();
            st.cases += 1;
            st.events += h.len() as u64;
            let pause = ops.iter().any(|o| matches!(o, gen::EvOp::Pause));
            let mut modkeys = std::collections::BTreeSet::new();
            let mut cfg = false;
            for f in &h {
                match f {
                    FlatEv::Key(k, _) if mm::is_modifier_key(*k) => {
                        modkeys.insert(key_idx(*k));
                    }
                    FlatEv::SetMode(_) | FlatEv::ChangeLayout(_) => cfg = true,
                    _ => {}
                }
            }
            if pause { st.with_pause += 1; }
            if modkeys.len() >= 3 { st.with_3_mod_keys += 1; }
            if cfg { st.with_config_change += 1; }
            let nt = match oracle {
                Oracle::Mods => pause || modkeys.len() >= 3,
                Oracle::Output => cfg || !modkeys.is_empty(),
            };
            if nt { st.nontrivial.push(fp(&hist_text(&h))); }
            if st.samples.len() < 2 && h.len() > 12 {
                st.samples.push(json!({"layer":"random-history","start_mode":mode_name(start),"history":hist_text(&h[..h.len().min(40)])}));
            }
        }
        match r {
            Ok(None) => Ok(()),
            Ok(Some((_, sig, _))) => Err(sig),
            Err(p) => Err(p),
        }
    });
    let st = stats.into_inner();
    run.eval(st.cases);
    for f in &st.nontrivial {
        run.nontrivial_fp(*f);
    }
    for s in st.samples {
        run.sample(|| s);
    }
    run.part("random_histories", json!({"cases": st.cases, "events": st.events, "classes": {"with_pause_idiom": st.with_pause, "with_3+_distinct_modifier_keys": st.with_3_mod_keys, "with_mode_or_layout_change": st.with_config_change, "nontrivial": st.nontrivial.len()}}));
    if let Some(((m, ops), _)) = outcome.failure {
        let start = if m { HandleControl::MapLettersToUnicode } else { HandleControl::Ignore };
        let h: Vec<FlatEv> = ops.iter().flat_map(gen::ev_op_flat).collect();
        eval_history(run, &h, start, oracle);
    }
}

pub fn c04(run: &mut Run) {
    run.rule = "Exhaustive: for each of the 512 modifier records x 2 Ctrl modes a fresh Keyboard is driven there by a canonical witness history (arrival confirmed through get_modifiers), then each of the 124 keys x {Down, Up, SingleShot} is applied and get_modifiers() is compared with a nine-flag reference model written from the property statement; on ordinary presses an argument-encoding layout reveals the modifier record handed to the layout (Keyboard and bare EventDecoder), which must be the same record. State exploration: breadth-first search over every key event and configuration setter, states named by the Debug rendering the crate derives for Keyboard/EventDecoder (so hidden fields steer the search too), every replayed history checked against the model. Keyboard pipeline layer: the Keyboard-level deep families (two-phase repetition grammar over bits/words/bytes/clear/events, noisy-line workloads of 6000 frames) through one Keyboard object with every decoded event processed, the oracle applied to the events actually decoded. Deep-history families: long typing (3000 presses over 1-40 distinct keys) with a modifier held; wrap probes K A^n B K with n = 254..258 over all modifier events and setters; two-phase grammar S A^i B^j probe over a 30-symbol alphabet; every cycle of <= 3 modifier events/setters (and of 4 over Ctrl/Alt/AltGr/Shift) repeated 12 times followed by every prefix of the cycle and probe presses; N = 1..20, 31-33, 63-65, 100, all distinct keys held at once, an event, the keys released. All ordered pairs of events from the initial state (372 x 372 x 2 modes) and pumping (every event repeated 700 times, typical patterns repeated for >= 70,000 events) look for state outside the record. Random: event histories (<= 200 ops, typematic repeats of ordinary and modifier keys, 48% on the nine modifier/lock keys, Pause idiom, mode and layout changes) checked after every event, shrunk by proptest. Non-trivial transition = event on a modifier/lock key, or source state with >= 2 flags set besides NumLock (exhaustive: distinct by construction); non-trivial history = contains a Pause idiom or >= 3 distinct modifier keys (distinct by fingerprint).".into();
    run.assumptions = vec!["get_modifiers() exposes the complete modifier record, and all 512 values are reached, so the enumerated relation is the complete transition relation of the modifier state; independence from state outside the record is attacked by the random layer".into()];
    exhaustive_transitions(run, Oracle::Mods);
    pairs_and_pumping(run, Oracle::Mods);
    explore_states(run, Oracle::Mods);
    deep_histories(run, Oracle::Mods);
    pipeline_layer(run, Oracle::Mods);
    run.exhaustive = true;
    let n = run.tier.pick(5_000u32, 500_000u32);
    random_histories(run, Oracle::Mods, n, 0xC04);
}

pub fn c14(run: &mut Run) {
    run.rule = "Exhaustive: (a) 1024 decoder states (512 modifier records x 2 modes, reached by witness histories) x 124 keys x 3 key states, on Keyboard and on a bare EventDecoder, with an argument-encoding layout whose returned character names the layout object, key, modifier record and mode it was consulted with. Oracle: Up/SingleShot -> None; press of the nine modifier/lock keys -> RawKey(self), NumpadLock with the hidden Pause-Ctrl held -> RawKey(PauseBreak); any other press -> exactly encode(current layout, key, the modifier record defined by the event history, current mode). (b) all sequences of <= 3 configuration changes from {set_ctrl_handling(Map), (Ignore), change_layout(#1), (#2)} between two presses, in 8 modifier states x 3 keys. (c) state exploration (Debug-fingerprint BFS over all events and setters), all ordered pairs of events from the initial state and pumping (>= 70,000-event repetitions); (d) random histories mixing events, typematic repeats and configuration changes. Non-trivial = press in a non-initial modifier state or after a configuration change.".into();
    run.assumptions = vec!["'the current modifier state' is the state defined by the history of modifier events (the C04 reference model); a modifier-tracking defect therefore also shows here whenever it changes what a later press yields".into()];
    exhaustive_transitions(run, Oracle::Output);
    pairs_and_pumping(run, Oracle::Output);
    explore_states(run, Oracle::Output);
    deep_histories(run, Oracle::Output);
    pipeline_layer(run, Oracle::Output);

    // (b) orderings of configuration changes between two presses
    let changes = [
        FlatEv::SetMode(HandleControl::MapLettersToUnicode),
        FlatEv::SetMode(HandleControl::Ignore),
        FlatEv::ChangeLayout(1),
        FlatEv::ChangeLayout(2),
    ];
    let mut seqs: Vec<Vec<FlatEv>> = vec![vec![]];
    let mut frontier: Vec<Vec<FlatEv>> = vec![vec![]];
    for _ in 0..3 {
        let mut next = Vec::new();
        for s in &frontier {
            for c in &changes {
                let mut t = s.clone();
                t.push(*c);
                next.push(t);
            }
        }
        seqs.extend(next.clone());
        frontier = next;
    }
    let states = [mm::INITIAL_MODS, 0, M_LSHIFT | M_NUMLOCK, M_RCTRL | M_NUMLOCK, M_RALT | M_CAPSLOCK, M_LALT | M_LCTRL | M_NUMLOCK, M_RCTRL2 | M_NUMLOCK, 0x1FF];
    let keys = [KeyCode::A, KeyCode::Numpad7, KeyCode::NumpadLock];
    let mut n = 0u64;
    for mode in MODES {
        for bits in states {
            for k in keys {
                for s in &seqs {
                    let mut h = witness(bits);
                    h.push(FlatEv::Key(KeyCode::Q, KeyState::Down));
                    h.push(FlatEv::Key(KeyCode::Q, KeyState::Up));
                    h.extend(s.iter().copied());
                    h.push(FlatEv::Key(k, KeyState::Down));
                    eval_history(run, &h, mode, Oracle::Output);
                    n += 1;
                    if !s.is_empty() {
                        run.nontrivial_enum(1);
                    }
                    if n % 911 == 0 {
                        let hh = h.clone();
                        run.sample(|| json!({"layer":"config-change-orderings","start_mode":mode_name(mode),"history":hist_text(&hh)}));
                    }
                }
            }
        }
    }
    run.part("config_change_orderings", json!({"change_sequences": seqs.len(), "cases": n}));
    run.exhaustive = true;

    let n = run.tier.pick(5_000u32, 500_000u32);
    random_histories(run, Oracle::Output, n, 0xC14);
}

pub fn replay(run: &mut Run, case: &Value) -> bool {
    if case["kind"].as_str() == Some("kbd_pipeline") {
        let ops: Vec<gen::Op> = case["ops"].as_array().map(|a| a.iter().filter_map(gen::op_from_json).collect()).unwrap_or_default();
        let start = mode_by_name(case["start_mode"].as_str().unwrap_or("Map")).unwrap_or(HandleControl::MapLettersToUnicode);
        let oracle = if run.id == "C04" { Oracle::Mods } else { Oracle::Output };
        run.eval(1);
        match pipeline_dev(&ops, start, oracle) {
            Ok(Some((_, sig, what))) => run.violation(Violation { sig, what, case: case.clone() }),
            Err(p) => run.violation(Violation { sig: format!("pipeline:{}", panic_sig(&p)), what: p, case: case.clone() }),
            Ok(None) => {}
        }
        return true;
    }
    if case["kind"].as_str() != Some("ev_history") {
        return false;
    }
    let h = history_from_json(&case["ops"]);
    let start = mode_by_name(case["start_mode"].as_str().unwrap_or("Ignore")).unwrap_or(HandleControl::Ignore);
    let oracle = if run.id == "C04" { Oracle::Mods } else { Oracle::Output };
    eval_history(run, &h, start, oracle);
    true
}
