//! Layout checks: C03, C09, C10, C11, C12, C15, C16, C17. All are exhaustive enumerations of
//! the pure function map_keycode(key, modifiers, mode) per layout object, each cell compared
//! with an oracle or a metamorphic relation stated by the property.
use crate::model::layout_tables::{self as lt, AltGrWant, Want};
use crate::model::sc;
use crate::report::{fp, guard, panic_sig, Run, Violation};
use crate::universe::*;
use serde_json::{json, Value};
use std::collections::BTreeMap;

type Out = Result<DecodedKey, String>;

fn out(l: usize, f: Form, k: KeyCode, bits: u16, h: HandleControl) -> Out {
    guard(|| call(l, f, k, &mods(bits), h))
}
fn out_str(o: &Out) -> String {
    match o {
        Ok(d) => dk_str(d),
        Err(p) => panic_sig(p),
    }
}
fn facts_str(bits: u16) -> String {
    let f = facts(bits);
    let mut v = Vec::new();
    if f.shift { v.push("Shift"); }
    if f.ctrl { v.push("Ctrl"); }
    if f.altgr { v.push("AltGr"); }
    if f.caps { v.push("Caps"); }
    if f.num { v.push("Num"); }
    if v.is_empty() { "none".into() } else { v.join("+") }
}

fn cell_case(check: &str, l: usize, f: Form, k: KeyCode, bits: u16, h: HandleControl) -> Value {
    json!({"kind":"layout_cell","check":check,"layout":LAYOUT_NAMES[l],"form":form_name(f),"key":key_name(k),"mods":bits,"mods_text":mods_str(bits),"mode":mode_name(h)})
}

fn cell_violation(run: &mut Run, check: &str, rel: &str, l: usize, f: Form, k: KeyCode, bits: u16, h: HandleControl, want: &str, got: &Out, sentence: String) {
    let sig = format!("{}:{}:{}:{}:{:?}:{}:{}:want={}:got={}", check, rel, LAYOUT_NAMES[l], form_name(f), k, facts_str(bits), mode_name(h), want.replace(' ', ""), out_str(got));
    run.violation(Violation { sig, what: sentence, case: cell_case(check, l, f, k, bits, h) });
}

const NUMPAD_KEYS: [KeyCode; 17] = [
    KeyCode::Numpad0, KeyCode::Numpad1, KeyCode::Numpad2, KeyCode::Numpad3, KeyCode::Numpad4,
    KeyCode::Numpad5, KeyCode::Numpad6, KeyCode::Numpad7, KeyCode::Numpad8, KeyCode::Numpad9,
    KeyCode::NumpadPeriod, KeyCode::NumpadDivide, KeyCode::NumpadMultiply, KeyCode::NumpadSubtract,
    KeyCode::NumpadAdd, KeyCode::NumpadEnter, KeyCode::NumpadLock,
];
fn is_numpad(k: KeyCode) -> bool {
    NUMPAD_KEYS.contains(&k)
}
fn numpad_digit(k: KeyCode) -> Option<(char, Option<KeyCode>)> {
    Some(match k {
        KeyCode::Numpad0 => ('0', Some(KeyCode::Insert)),
        KeyCode::Numpad1 => ('1', Some(KeyCode::End)),
        KeyCode::Numpad2 => ('2', Some(KeyCode::ArrowDown)),
        KeyCode::Numpad3 => ('3', Some(KeyCode::PageDown)),
        KeyCode::Numpad4 => ('4', Some(KeyCode::ArrowLeft)),
        KeyCode::Numpad5 => ('5', None),
        KeyCode::Numpad6 => ('6', Some(KeyCode::ArrowRight)),
        KeyCode::Numpad7 => ('7', Some(KeyCode::Home)),
        KeyCode::Numpad8 => ('8', Some(KeyCode::ArrowUp)),
        KeyCode::Numpad9 => ('9', Some(KeyCode::PageUp)),
        _ => return None,
    })
}

/// The letter a key types on a layout: its bare base-level output if that is a..z (C09).
fn letter_of(l: usize, k: KeyCode) -> Option<char> {
    match out(l, Form::Bare, k, M_NUMLOCK, HandleControl::Ignore) {
        Ok(DecodedKey::Unicode(c)) if c.is_ascii_lowercase() => Some(c),
        _ => None,
    }
}

// =======================================================================================
// C03
// =======================================================================================
#[derive(Clone, Copy, PartialEq, Eq, Debug)]
enum Level {
    Base,
    Shift,
    AltGr,
}

/// Does the oracle say this key is a cased-letter key (lowercase base whose uppercase is the
/// shift level)? For such keys CapsLock inverts which of the two levels Shift selects (C10).
fn oracle_cased(cell: &lt::Cell) -> bool {
    match (cell.base.first(), cell.shift.first()) {
        (Some(b), Some(s)) => {
            let mut up = b.to_uppercase();
            b.is_lowercase() && matches!((up.next(), up.next()), (Some(u), None) if u == s && u != b)
        }
        _ => false,
    }
}

fn c03_cell(run: &mut Run, l: usize, f: Form, cell: &lt::Cell, bits: u16, h: HandleControl, skipped: &mut u64) {
    let fa = facts(bits);
    let base_letter = matches!(cell.base.first(), Some(c) if c.is_ascii_lowercase());
    if (fa.shift && fa.altgr) || (h == HandleControl::MapLettersToUnicode && fa.ctrl && base_letter) {
        *skipped += 1;
        return;
    }
    // "whatever the lock flags are": CapsLock does not select a level, except that on a
    // cased-letter key it inverts Shift (C10), so the expected character of the base/shift
    // levels swaps there.
    let eff_shift = fa.shift ^ (fa.caps && oracle_cased(cell));
    let level = if fa.altgr { Level::AltGr } else if eff_shift { Level::Shift } else { Level::Base };
    if level != Level::AltGr && fa.ctrl {
        // whether a held Ctrl still "selects the base/shift level" is not said by the statement
        // (Ctrl is one of the five facts a layout may depend on, C11): not judged here
        *skipped += 1;
        return;
    }
    run.eval(1);
    let k = cell.key;
    let got = out(l, f, k, bits, h);
    let us = lt::us_char(k, level == Level::Shift);
    let name = LAYOUT_NAMES[l];
    match level {
        Level::Base | Level::Shift => {
            let want = if level == Level::Base { &cell.base } else { &cell.shift };
            if let Want::OneOf(v) = want {
                if v.first().copied() != us {
                    run.nontrivial_fp(fp(&("c03", l, key_idx(k), level as u8)));
                }
            }
            let ok = match &got {
                Ok(DecodedKey::Unicode(c)) => want.accepts(*c),
                Ok(DecodedKey::RawKey(_)) => matches!(want, Want::Any),
                #[allow(unreachable_patterns)]
                Ok(_) => matches!(want, Want::Any),
                Err(_) => false,
            };
            if !ok {
                cell_violation(run, "C03", if level == Level::Base { "base" } else { "shift" }, l, f, k, bits, h, &want.text(), &got,
                    format!("{} ({}): key {:?} at the {} level (modifiers {}, mode {}) types {}; the national layout prints {}", name, form_name(f), k, if level == Level::Base { "unshifted" } else { "shifted" }, mods_str(bits), mode_name(h), out_str(&got), want.text()));
            }
        }
        Level::AltGr => {
            run.nontrivial_fp(fp(&("c03", l, key_idx(k), 2u8)));
            // does the layout give this key an AltGr level at all? (layout-level fact, read off
            // the canonical state) — or does it produce a distinct character in this very state?
            let canon_base = out(l, f, k, M_NUMLOCK, HandleControl::Ignore);
            let canon_altgr = out(l, f, k, M_NUMLOCK | M_RALT, HandleControl::Ignore);
            let has_level = canon_base != canon_altgr;
            // Ctrl is one of the facts a layout may depend on: with right Alt AND Ctrl held the
            // influence of Ctrl is not specified -> not judged. When AltGr exists only as
            // left Alt + Ctrl, the state "without AltGr" is the one without left Alt and Ctrl.
            if fa.ctrl && bits & M_RALT != 0 {
                *skipped += 1;
                return;
            }
            // left Alt + Ctrl on a key without an AltGr level: whatever differs from the plain
            // state may be Ctrl's doing (Ctrl+[ = ESC), which C03 leaves alone
            if fa.ctrl && !has_level {
                *skipped += 1;
                return;
            }
            // CapsLock+AltGr on a cased-letter key stays judged as the AltGr level ("whatever the
            // lock ... flags are"): reading it as the unconstrained Shift+AltGr level (because
            // C10 makes CapsLock a Shift inversion there) would let "CapsLock+AltGr+M types M
            // instead of µ" through (seeded C03-B); see preserving/kept-strict/2D-cand6.
            let here_without = out(l, f, k, bits & !(M_RALT | M_LALT | M_LCTRL | M_RCTRL), h);
            let distinct_here = got != here_without;
            if !has_level && !distinct_here {
                return;
            }
            let (ok, want) = match &cell.altgr {
                AltGrWant::Any => (true, "any".to_string()),
                AltGrWant::NoLevel => (false, format!("no-AltGr-char(={})", out_str(&here_without))),
                AltGrWant::Char(c) => {
                    // with CapsLock on, the capital of a cased AltGr letter is the standard's too
                    // (KBDUK: AltGr+CapsLock+E = É)
                    let mut up = c.to_uppercase();
                    let cap = match (up.next(), up.next()) { (Some(u), None) if fa.caps => Some(u), _ => None };
                    (matches!(&got, Ok(DecodedKey::Unicode(g)) if g == c || Some(*g) == cap), format!("U+{:04X}", *c as u32))
                }
            };
            if !ok {
                cell_violation(run, "C03", "altgr", l, f, k, bits, h, &want, &got,
                    format!("{} ({}): key {:?} with AltGr (modifiers {}, mode {}) types {} (without AltGr: {}; the layout {} this key an AltGr level); the national layout's AltGr level for this key is {}", name, form_name(f), k, mods_str(bits), mode_name(h), out_str(&got), out_str(&here_without), if has_level { "gives" } else { "does not otherwise give" }, want));
            }
        }
    }
}

/// end-to-end: hold the level's modifier, press the key, through Set 2 / Set 1 bytes into
/// Keyboard<AnyLayout, SetN>. The character assertion applies only if the scancode stage
/// produced the intended KeyEvent (otherwise it is C01/C02's business).
fn c03_e2e(run: &mut Run, l: usize, cell: &lt::Cell, level: Level, set2: bool, precond_failed: &mut u64) {
    let want = match level {
        Level::Base => cell.base.clone(),
        Level::Shift => cell.shift.clone(),
        Level::AltGr => match &cell.altgr {
            AltGrWant::Char(c) => Want::OneOf(vec![*c]),
            _ => return,
        },
    };
    if matches!(want, Want::Any) {
        return;
    }
    let modkey = match level {
        Level::Base => None,
        Level::Shift => Some(KeyCode::RShift),
        Level::AltGr => Some(KeyCode::RAltGr),
    };
    let enc = |k: KeyCode, s: KeyState| if set2 { sc::set2_encode(k, s) } else { sc::set1_encode(k, s) };
    let mut bytes = Vec::new();
    if let Some(m) = modkey {
        match enc(m, KeyState::Down) { Some(b) => bytes.extend(b), None => return }
    }
    let split = bytes.len();
    match enc(cell.key, KeyState::Down) { Some(b) => bytes.extend(b), None => return }
    run.eval(1);
    let r = guard(|| {
        let mut evs = Vec::new();
        let mut decoded = Vec::new();
        if set2 {
            let mut kb = Keyboard::new(ScancodeSet2::new(), any_layout(l), HandleControl::Ignore);
            for b in &bytes {
                if let Ok(Some(e)) = kb.add_byte(*b) { evs.push(e.clone()); decoded.push(kb.process_keyevent(e)); }
            }
        } else {
            let mut kb = Keyboard::new(ScancodeSet1::new(), any_layout(l), HandleControl::Ignore);
            for b in &bytes {
                if let Ok(Some(e)) = kb.add_byte(*b) { evs.push(e.clone()); decoded.push(kb.process_keyevent(e)); }
            }
        }
        (evs, decoded)
    });
    let case = json!({"kind":"typed","layout":LAYOUT_NAMES[l],"key":key_name(cell.key),"level":format!("{:?}",level),"set":if set2 {"set2"} else {"set1"},"bytes":hex(&bytes)});
    match r {
        Err(p) => run.violation(Violation { sig: format!("C03:e2e:{}:{:?}:{}", LAYOUT_NAMES[l], cell.key, panic_sig(&p)), what: format!("panic typing {:?} on {} through bytes [{}]: {}", cell.key, LAYOUT_NAMES[l], hex(&bytes), p), case }),
        Ok((evs, decoded)) => {
            let mut expect_evs = Vec::new();
            if let Some(m) = modkey { expect_evs.push(KeyEvent::new(m, KeyState::Down)); }
            expect_evs.push(KeyEvent::new(cell.key, KeyState::Down));
            if evs != expect_evs {
                *precond_failed += 1;
                return;
            }
            let _ = split;
            let last = decoded.last().cloned().flatten();
            let ok = matches!(last, Some(DecodedKey::Unicode(c)) if want.accepts(c));
            // AltGr level is only required where the layout has a distinct AltGr character at all
            if !ok && level == Level::AltGr {
                let base = out(l, Form::AnyVal, cell.key, M_NUMLOCK, HandleControl::Ignore).ok();
                if last == base { return; }
            }
            if !ok {
                run.violation(Violation {
                    sig: format!("C03:e2e:{}:{}:{:?}:{:?}:want={}:got={}", LAYOUT_NAMES[l], if set2 {"set2"} else {"set1"}, cell.key, level, want.text(), odk_str(&last)),
                    what: format!("{}: typing key {:?} at the {:?} level through {} bytes [{}] yields {}; the national layout prints {}", LAYOUT_NAMES[l], cell.key, level, if set2 {"Set 2"} else {"Set 1"}, hex(&bytes), odk_str(&last), want.text()),
                    case,
                });
            }
        }
    }
}

pub fn c03(run: &mut Run) {
    run.rule = "Exhaustive: 10 layouts x the 47-49 main-block character keys of each layout's oracle table x all 512 modifier records x 2 Ctrl modes x 3 object forms (bare, AnyLayout, &AnyLayout). Each case is classified by level (base = no Shift, no AltGr; shift; AltGr = right Alt or left Alt+Ctrl, without Shift) and compared with the national-layout table transcribed from the references the crate cites; CapsLock does not select a level except that on cased-letter keys (per the oracle table) it swaps the base and shift expectation; cases with Shift+AltGr, or with Ctrl being mapped on a letter key, are skipped and counted. AltGr level: required wherever the layout gives the key an AltGr level at all (its canonical AltGr output differs from its canonical base output) or produces a distinct character in the state at hand. Plus end-to-end typing scripts for every (layout, key, level) through Set 2 and Set 1 bytes into Keyboard<AnyLayout, SetN>, and levels selected by event histories through Keyboard::process_keyevent (the key typed at one level - released, held or repeated - then at another level, 12 ordered level pairs x 4 shapes per key). Non-trivial = (layout, key, level) whose expected character differs from the US layout's for that key and level, or AltGr level; distinct by that triple. Every history case counts as well (a level change with the key pressed before at another level), distinct by (layout, key, level pair, shape).".into();
    run.assumptions = vec![
        "national-layout tables are the author's transcription of the standards (sealed sandbox); cells where references disagree are unconstrained: Uk Oem8 AltGr, Azerty Oem8/Oem4 AltGr + Oem8 Shift, Jis Key0/OemPlus Shift, Jis Oem12/Oem13 base accept backslash or yen, Colemak AltGr layer, Shift+AltGr everywhere".into(),
        "dead keys are expected as their spacing character (the crate documents no dead-key support)".into(),
    ];
    let mut skipped = 0u64;
    let mut cells = 0u64;
    let mut per_layout = BTreeMap::new();
    for l in 0..N_LAYOUTS {
        let table = lt::table(l);
        per_layout.insert(LAYOUT_NAMES[l], table.len());
        for cell in &table {
            cells += 1;
            for h in MODES {
                for bits in 0..N_MODS {
                    for f in FORMS {
                        c03_cell(run, l, f, cell, bits, h, &mut skipped);
                    }
                }
            }
            if cells % 37 == 0 || (l >= 2 && cells % 53 == 0) {
                let k = cell.key;
                let (b, s, a) = (out(l, Form::Bare, k, M_NUMLOCK, HandleControl::Ignore), out(l, Form::Bare, k, M_NUMLOCK | M_RSHIFT, HandleControl::Ignore), out(l, Form::Bare, k, M_NUMLOCK | M_RALT, HandleControl::Ignore));
                let c = cell.clone();
                run.sample(|| json!({"layout":LAYOUT_NAMES[l],"key":key_name(k),"oracle":{"base":c.base.text(),"shift":c.shift.text(),"altgr":format!("{:?}",c.altgr)},"observed":{"base":out_str(&b),"shift(RShift)":out_str(&s),"altgr(RAlt)":out_str(&a)}}));
            }
        }
    }
    run.part("table_cells", json!({"keys_per_layout": per_layout, "layout_key_cells": cells, "skipped(shift+altgr|ctrl-mapped)": skipped}));
    let mut pre = 0u64;
    let mut scripts = 0u64;
    for l in 0..N_LAYOUTS {
        for cell in &lt::table(l) {
            for level in [Level::Base, Level::Shift, Level::AltGr] {
                for set2 in [true, false] {
                    scripts += 1;
                    c03_e2e(run, l, cell, level, set2, &mut pre);
                }
            }
        }
    }
    run.part("typed_end_to_end", json!({"scripts": scripts, "precondition_failed(scancode stage did not deliver the intended event; C01/C02's business)": pre}));
    c03_histories(run);
    run.exhaustive = true;
}

fn c03_replay(run: &mut Run, case: &Value) {
    let l = layout_by_name(case["layout"].as_str().unwrap_or("")).unwrap_or(0);
    let k = key_by_name(case["key"].as_str().unwrap_or("")).unwrap_or(KeyCode::A);
    let table = lt::table(l);
    let Some(cell) = table.iter().find(|c| c.key == k) else { return };
    if case["kind"] == "typed" {
        let level = match case["level"].as_str() { Some("Shift") => Level::Shift, Some("AltGr") => Level::AltGr, _ => Level::Base };
        let mut pre = 0;
        c03_e2e(run, l, cell, level, case["set"] == "set2", &mut pre);
    } else {
        let f = form_by_name(case["form"].as_str().unwrap_or("bare")).unwrap_or(Form::Bare);
        let h = mode_by_name(case["mode"].as_str().unwrap_or("Ignore")).unwrap_or(HandleControl::Ignore);
        let mut sk = 0;
        c03_cell(run, l, f, cell, case["mods"].as_u64().unwrap_or(0) as u16, h, &mut sk);
    }
}

// =======================================================================================
// C09
// =======================================================================================
/// m° : both Ctrl flags cleared, AltGr fact preserved
fn strip_ctrl(bits: u16) -> u16 {
    let f = facts(bits);
    let mut b = bits & !(M_LCTRL | M_RCTRL);
    if f.altgr && !facts(b).altgr {
        b |= M_RALT;
    }
    b
}

fn c09_cell(run: &mut Run, l: usize, k: KeyCode, bits: u16, letter: Option<char>) {
    let f = Form::Bare;
    let fa = facts(bits);
    let map = HandleControl::MapLettersToUnicode;
    let ign = HandleControl::Ignore;
    let om = out(l, f, k, bits, map);
    let oi = out(l, f, k, bits, ign);
    run.eval(2);
    if fa.ctrl {
        run.nontrivial_fp(fp(&("c09", l, key_idx(k), fa.class_id())));
    }
    let name = LAYOUT_NAMES[l];
    if let Err(_) = &om {
        cell_violation(run, "C09", "panic", l, f, k, bits, map, "a value", &om, format!("{}: map_keycode({:?}, {}, Map) panics", name, k, mods_str(bits)));
        return;
    }
    if let Err(_) = &oi {
        cell_violation(run, "C09", "panic", l, f, k, bits, ign, "a value", &oi, format!("{}: map_keycode({:?}, {}, Ignore) panics", name, k, mods_str(bits)));
        return;
    }
    match letter {
        Some(c) => {
            // R0
            if fa.ctrl && bits & (M_LALT | M_RALT) == 0 {
                let want = char::from_u32(c as u32 & 0x1F).unwrap();
                if om != Ok(DecodedKey::Unicode(want)) {
                    cell_violation(run, "C09", "R0-ctrl-letter", l, f, k, bits, map, &format!("U+{:04X}", want as u32), &om,
                        format!("{}: key {:?} types the letter '{}', so with Ctrl held (modifiers {}, mapping enabled) it must yield U+{:04X}; it yields {}", name, k, c, mods_str(bits), want as u32, out_str(&om)));
                }
            }
            // R1
            if !fa.ctrl && om != oi {
                cell_violation(run, "C09", "R1-no-ctrl", l, f, k, bits, map, &out_str(&oi), &om,
                    format!("{}: key {:?} without Ctrl (modifiers {}) yields {} with mapping enabled but {} with mapping disabled", name, k, mods_str(bits), out_str(&om), out_str(&oi)));
            }
        }
        None => {
            // R2
            if om != oi {
                cell_violation(run, "C09", "R2-non-letter", l, f, k, bits, map, &out_str(&oi), &om,
                    format!("{}: non-letter key {:?} (modifiers {}) yields {} with mapping enabled but {} with mapping disabled", name, k, mods_str(bits), out_str(&om), out_str(&oi)));
            }
        }
    }
    // R3: with mapping disabled, Ctrl leaves the letters as letters (HandleControl::Ignore docs).
    // For non-letter keys the statement only says that Ctrl *handling* (the mode) changes nothing
    // (R2); Ctrl itself is one of the five facts a layout may depend on (C11).
    if fa.ctrl && letter.is_some() {
        let b0 = strip_ctrl(bits);
        let o0 = out(l, f, k, b0, ign);
        run.eval(1);
        if oi != o0 {
            cell_violation(run, "C09", "R3-ignore-mode", l, f, k, bits, ign, &out_str(&o0), &oi,
                format!("{}: with mapping disabled, key {:?} yields {} with modifiers {} but {} with Ctrl released ({})", name, k, out_str(&oi), mods_str(bits), out_str(&o0), mods_str(b0)));
        }
    }
}

pub fn c09(run: &mut Run) {
    run.rule = "Exhaustive: 10 layouts x 124 keys x 512 modifier records x 2 modes. The letter of a key is what the layout itself types at the bare base level (a..z). R0: mapping enabled, either Ctrl held, no Alt/AltGr, letter key => U+0001..U+001A of that letter for every Shift/CapsLock/NumLock/hidden-flag value. R1: Ctrl not held => output identical in both modes. R2: non-letter key => output identical in both modes for every modifier record. R3: mapping disabled, letter key => output identical with Ctrl held and released (AltGr fact preserved). Event-history layer: all sequences of <= 3 events over {LCtrl, RCtrl, LShift, RAltGr, LAlt down/up, CapsLock, F1, an earlier press/release of the probed key} and of 4 events over the first eight, followed by a press of a letter key through Keyboard::process_keyevent; Ctrl counts as held iff one of the two Ctrl keys is held per the history. Non-trivial = case with Ctrl held; distinct = (layout, key, abstract modifier class).".into();
    run.assumptions = vec!["'the letter the layout types' is read off the layout's own bare output, which keeps C09 independent of C03's tables".into()];
    let mut letters = BTreeMap::new();
    for l in 0..N_LAYOUTS {
        let mut n = 0;
        for &k in ALL_KEYS {
            let letter = letter_of(l, k);
            if letter.is_some() { n += 1; }
            for bits in 0..N_MODS {
                c09_cell(run, l, k, bits, letter);
            }
            if let Some(c) = letter {
                if (key_idx(k) + l) % 23 == 0 {
                    let o = out(l, Form::Bare, k, M_NUMLOCK | M_RCTRL | M_LSHIFT, HandleControl::MapLettersToUnicode);
                    run.sample(|| json!({"layout":LAYOUT_NAMES[l],"key":key_name(k),"types":c.to_string(),"modifiers":"numlock+rctrl+lshift","mode":"Map","expected":format!("U+{:04X}", c as u32 & 0x1F),"observed":out_str(&o)}));
                }
            }
        }
        letters.insert(LAYOUT_NAMES[l], n);
    }
    run.part("cells", json!({"letter_keys_per_layout": letters, "cells": N_LAYOUTS * ALL_KEYS.len() * 512}));
    c09_histories(run);
    run.exhaustive = true;
}

// =======================================================================================
// C10
// =======================================================================================
fn cased_letter(l: usize, k: KeyCode) -> Option<(char, char)> {
    let b = out(l, Form::Bare, k, M_NUMLOCK, HandleControl::Ignore).ok()?;
    let s = out(l, Form::Bare, k, M_NUMLOCK | M_LSHIFT, HandleControl::Ignore).ok()?;
    if let (DecodedKey::Unicode(b), DecodedKey::Unicode(s)) = (b, s) {
        if b.is_lowercase() {
            let mut up = b.to_uppercase();
            if let (Some(u), None) = (up.next(), up.next()) {
                if u == s && u != b {
                    return Some((b, s));
                }
            }
        }
    }
    None
}
fn invert_shift(bits: u16) -> u16 {
    if bits & (M_LSHIFT | M_RSHIFT) != 0 {
        bits & !(M_LSHIFT | M_RSHIFT)
    } else {
        bits | M_LSHIFT
    }
}

fn c10_cell(run: &mut Run, l: usize, k: KeyCode, bits: u16, h: HandleControl, cased: Option<(char, char)>) {
    debug_assert!(bits & M_CAPSLOCK == 0);
    let f = Form::Bare;
    let on = out(l, f, k, bits | M_CAPSLOCK, h);
    run.eval(1);
    let name = LAYOUT_NAMES[l];
    match cased {
        Some((b, s)) => {
            run.nontrivial_fp(fp(&("c10", l, key_idx(k), bits, mode_idx(h))));
            let inv = out(l, f, k, invert_shift(bits), h);
            if on != inv {
                cell_violation(run, "C10", "letter-inverts-shift", l, f, k, bits | M_CAPSLOCK, h, &out_str(&inv), &on,
                    format!("{}: key {:?} types '{}' unshifted and '{}' shifted, so CapsLock must act as an inversion of Shift; with modifiers {} (mode {}) it yields {}, but with CapsLock off and Shift inverted ({}) it yields {}", name, k, b, s, mods_str(bits | M_CAPSLOCK), mode_name(h), out_str(&on), mods_str(invert_shift(bits)), out_str(&inv)));
            }
        }
        None => {
            let off = out(l, f, k, bits, h);
            if let (Ok(a), Ok(b)) = (&off, &out(l, f, k, invert_shift(bits), h)) {
                if a != b {
                    run.nontrivial_fp(fp(&("c10", l, key_idx(k), bits, mode_idx(h))));
                }
            }
            if on != off {
                cell_violation(run, "C10", "non-letter-unaffected", l, f, k, bits | M_CAPSLOCK, h, &out_str(&off), &on,
                    format!("{}: key {:?} is not a cased-letter key, yet CapsLock changes its output: modifiers {} (mode {}) yield {}, the same without CapsLock yields {}", name, k, mods_str(bits | M_CAPSLOCK), mode_name(h), out_str(&on), out_str(&off)));
            }
        }
    }
}

pub fn c10(run: &mut Run) {
    run.rule = "Exhaustive: 10 layouts x 124 keys x the 256 modifier records with CapsLock off, each paired with its CapsLock-on twin, x 2 modes. A key is a cased-letter key iff its bare output is a lowercase character whose single-character uppercase is its bare Shift output. Cased-letter key: out(m + CapsLock) = out(m with the Shift fact inverted). Any other key: out(m + CapsLock) = out(m). Event-history layer: all sequences of <= 4 events over {CapsLock, LShift, RShift, the probed key itself} x {down, up} followed by a key press through Keyboard::process_keyevent (CapsLock = parity of its presses, Shift = any shift key held, per the history). Non-trivial = twin pair on a cased-letter key or on a key whose Shift output differs from its base output; distinct = (layout, key, modifier record, mode).".into();
    run.assumptions = vec!["cased-letter classification uses Unicode simple case mapping (char::to_uppercase with a single-character result)".into()];
    let mut ncased = BTreeMap::new();
    for l in 0..N_LAYOUTS {
        let mut n = 0;
        for &k in ALL_KEYS {
            let cased = cased_letter(l, k);
            if cased.is_some() { n += 1; }
            for h in MODES {
                for bits in 0..N_MODS {
                    if bits & M_CAPSLOCK != 0 { continue; }
                    c10_cell(run, l, k, bits, h, cased);
                }
            }
            if (key_idx(k) * 3 + l) % 61 == 0 {
                let (a, b) = (out(l, Form::Bare, k, M_NUMLOCK | M_CAPSLOCK, HandleControl::Ignore), out(l, Form::Bare, k, M_NUMLOCK | M_CAPSLOCK | M_RSHIFT, HandleControl::Ignore));
                run.sample(|| json!({"layout":LAYOUT_NAMES[l],"key":key_name(k),"cased_letter_key":cased.map(|(b,s)| format!("{}/{}",b,s)),"capslock":out_str(&a),"capslock+rshift":out_str(&b)}));
            }
        }
        ncased.insert(LAYOUT_NAMES[l], n);
    }
    run.part("cells", json!({"cased_letter_keys_per_layout": ncased, "twin_pairs": N_LAYOUTS * ALL_KEYS.len() * 256 * 2}));
    c10_histories(run);
    run.exhaustive = true;
}

// =======================================================================================
// C11
// =======================================================================================
fn canonical(bits: u16, numpad: bool) -> u16 {
    let f = facts(bits);
    let mut b = 0;
    if f.shift { b |= M_LSHIFT; }
    if f.ctrl { b |= M_LCTRL; }
    if f.altgr { b |= M_RALT; }
    if f.caps { b |= M_CAPSLOCK; }
    if f.num || !numpad { b |= M_NUMLOCK; }
    b
}

fn c11_cell(run: &mut Run, l: usize, k: KeyCode, bits: u16, h: HandleControl) {
    let f = Form::Bare;
    let canon = canonical(bits, is_numpad(k));
    if canon == bits {
        return;
    }
    run.eval(1);
    run.nontrivial_fp(fp(&("c11", l, key_idx(k), bits, mode_idx(h))));
    let a = out(l, f, k, bits, h);
    let b = out(l, f, k, canon, h);
    if a != b {
        cell_violation(run, "C11", "class-invariance", l, f, k, bits, h, &out_str(&b), &a,
            format!("{}: key {:?} (mode {}) yields {} with modifiers {} but {} with {}, although both are the same abstract state ({}{})", LAYOUT_NAMES[l], k, mode_name(h), out_str(&a), mods_str(bits), out_str(&b), mods_str(canon), facts_str(bits), if is_numpad(k) { "" } else { "; NumLock is irrelevant for a non-numpad key" }));
    }
}

fn c11_predicates(run: &mut Run, bits: u16) {
    let m = mods(bits);
    let f = facts(bits);
    let want = [
        ("is_shifted", f.shift),
        ("is_ctrl", f.ctrl),
        ("is_alt", bits & (M_LALT | M_RALT) != 0),
        ("is_altgr", f.altgr),
        ("is_caps", f.shift ^ f.caps),
    ];
    let got = guard(|| [m.is_shifted(), m.is_ctrl(), m.is_alt(), m.is_altgr(), m.is_caps()]);
    run.eval(5);
    run.nontrivial_fp(fp(&("pred", bits)));
    match got {
        Err(p) => run.violation(Violation { sig: format!("C11:pred:{}:{}", mods_str(bits), panic_sig(&p)), what: format!("a Modifiers predicate panics on {}: {}", mods_str(bits), p), case: json!({"kind":"predicate","mods":bits}) }),
        Ok(g) => {
            for i in 0..5 {
                // is_alt: "Alt" is not one of the five facts of the statement -> unconstrained.
                // is_caps: the statement names the fact "CapsLock"; both the lock flag itself and
                // the effective value (Shift xor CapsLock, what the crate computes today) are
                // "the CapsLock grouping" -> either is accepted.
                if want[i].0 == "is_alt" || want[i].0 == "is_caps" {
                    continue; // is_caps is judged over all 512 records at once, see c11_is_caps
                }
                if g[i] != want[i].1 {
                    run.violation(Violation {
                        sig: format!("C11:pred:{}:{}:want={}:got={}", want[i].0, mods_str(bits), want[i].1, g[i]),
                        what: format!("Modifiers::{}() on {{{}}} returns {}, the documented grouping gives {}", want[i].0, mods_str(bits), g[i], want[i].1),
                        case: json!({"kind":"predicate","mods":bits}),
                    });
                }
            }
        }
    }
}

/// is_caps must be ONE of the two readings of "the CapsLock grouping" on all 512 records: the
/// lock flag itself, or the effective value Shift xor CapsLock (what the crate computes today).
fn c11_is_caps(run: &mut Run) {
    let got: Vec<Option<bool>> = (0..N_MODS).map(|b| { let m = mods(b); guard(|| m.is_caps()).ok() }).collect();
    let dev_flag: Vec<u16> = (0..N_MODS).filter(|b| got[*b as usize] != Some(facts(*b).caps)).collect();
    let dev_eff: Vec<u16> = (0..N_MODS).filter(|b| got[*b as usize] != Some(facts(*b).shift ^ facts(*b).caps)).collect();
    run.eval(512);
    if !dev_flag.is_empty() && !dev_eff.is_empty() {
        let (reading, dev) = if dev_eff.len() <= dev_flag.len() { ("Shift xor CapsLock", &dev_eff) } else { ("the CapsLock flag", &dev_flag) };
        let b = dev[0];
        run.violation(Violation {
            sig: format!("C11:pred:is_caps:{}:got={:?}", mods_str(b), got[b as usize]),
            what: format!("Modifiers::is_caps() computes neither the CapsLock flag nor Shift xor CapsLock on all 512 records; closest reading is {}, from which it deviates on {} records, first {{{}}} -> {:?}", reading, dev.len(), mods_str(b), got[b as usize]),
            case: json!({"kind":"predicate","mods":b}),
        });
    }
}

pub fn c11(run: &mut Run) {
    run.rule = "Exhaustive: 10 layouts x 124 keys x 512 modifier records x 2 modes; each record is compared with the canonical representative of its abstract class (Shift -> left Shift only, Ctrl -> left Ctrl only, AltGr = right Alt or left Alt+Ctrl -> right Alt only, CapsLock, NumLock; a lone left Alt and the hidden Pause-Ctrl dropped; NumLock normalised to on for the 107 non-numpad keys): outputs must be equal. The Modifiers predicates are compared on all 512 records with groupings computed by the harness (is_shifted, is_ctrl, is_altgr exactly; is_caps must be the CapsLock flag or Shift xor CapsLock consistently; is_alt is not one of the five facts and is unconstrained). Event-history layer: every record and its class representative reached by witness histories of key events, the key pressed through Keyboard::process_keyevent, outputs equal. Non-trivial = record that differs from its class representative; distinct = (layout, key, record, mode).".into();
    run.assumptions = vec!["the abstract facts are computed by the harness from the nine public fields, never by the crate's own predicates".into()];
    for l in 0..N_LAYOUTS {
        for &k in ALL_KEYS {
            for h in MODES {
                for bits in 0..N_MODS {
                    c11_cell(run, l, k, bits, h);
                }
            }
        }
        let k = ALL_KEYS[(l * 13 + 20) % ALL_KEYS.len()];
        let bits = M_RSHIFT | M_LALT | M_RCTRL | M_RCTRL2;
        let (a, b) = (out(l, Form::Bare, k, bits, HandleControl::Ignore), out(l, Form::Bare, k, canonical(bits, is_numpad(k)), HandleControl::Ignore));
        run.sample(|| json!({"layout":LAYOUT_NAMES[l],"key":key_name(k),"record":mods_str(bits),"representative":mods_str(canonical(bits, is_numpad(k))),"out(record)":out_str(&a),"out(representative)":out_str(&b)}));
    }
    for bits in 0..N_MODS {
        c11_predicates(run, bits);
    }
    c11_is_caps(run);
    run.part("cells", json!({"layout_cells": N_LAYOUTS * ALL_KEYS.len() * 512 * 2, "classes": 32, "predicate_evaluations": 512 * 5}));
    c11_histories(run);
    run.exhaustive = true;
}

// =======================================================================================
// C12
// =======================================================================================
fn c12_char(run: &mut Run, l: usize, f: Form, c: char) {
    let levels = [("unshifted", M_NUMLOCK), ("shift", M_NUMLOCK | M_LSHIFT), ("AltGr", M_NUMLOCK | M_RALT)];
    let mut witness = None;
    let mut only_altgr_or_nonus = true;
    for &k in ALL_KEYS {
        for (ln, bits) in levels {
            run.eval(1);
            if out(l, f, k, bits, HandleControl::Ignore) == Ok(DecodedKey::Unicode(c)) {
                if witness.is_none() {
                    witness = Some((k, ln));
                }
                if ln != "AltGr" && out(L_US, Form::Bare, k, bits, HandleControl::Ignore) == Ok(DecodedKey::Unicode(c)) {
                    only_altgr_or_nonus = false;
                }
            }
        }
    }
    if only_altgr_or_nonus {
        run.nontrivial_fp(fp(&("c12", l, f as u8, c)));
    }
    match witness {
        Some((k, ln)) => {
            if (c as usize + l * 7) % 97 == 0 || (only_altgr_or_nonus && (c as usize + l) % 11 == 0) {
                run.sample(|| json!({"layout":LAYOUT_NAMES[l],"selected_as":form_name(f),"char":c.to_string(),"witness_key":key_name(k),"level":ln}));
            }
        }
        None => run.violation(Violation {
            sig: format!("C12:untypeable:{}{}:U+{:04X}", LAYOUT_NAMES[l], if f == Form::Bare { String::new() } else { format!("({})", form_name(f)) }, c as u32),
            what: format!("{}{}: no key types the printable ASCII character '{}' (U+{:04X}) at its unshifted, shifted or AltGr level", LAYOUT_NAMES[l], if f == Form::Bare { String::new() } else { format!(" selected through {}", form_name(f)) }, c, c as u32),
            case: json!({"kind":"typeable","layout":LAYOUT_NAMES[l],"form":form_name(f),"char":c as u32}),
        }),
    }
}

pub fn c12(run: &mut Run) {
    run.rule = "Exhaustive: 10 layouts (each as the bare type, selected as AnyLayout and as &AnyLayout) x the 95 printable ASCII characters; for each, an existence search over all 124 keys x {no modifier, left Shift, right Alt} (NumLock on, mapping disabled); the witness key is recorded. Non-trivial = character whose witnesses are all at the AltGr level or on keys where the US layout types something else; distinct = (layout, form, character).".into();
    run.assumptions = vec!["searching with NumLock on (the power-on state) and mode Ignore; the three plain levels are what the property names".into()];
    for l in 0..N_LAYOUTS {
        for f in FORMS {
            for c in 0x20u8..0x7F {
                c12_char(run, l, f, c as char);
            }
        }
    }
    run.part("cells", json!({"layout_chars": N_LAYOUTS * 95, "object_forms": 3}));
    run.exhaustive = true;
}

// =======================================================================================
// C15
// =======================================================================================
const C15_KEYS: [KeyCode; 23] = [
    KeyCode::Numpad0, KeyCode::Numpad1, KeyCode::Numpad2, KeyCode::Numpad3, KeyCode::Numpad4,
    KeyCode::Numpad5, KeyCode::Numpad6, KeyCode::Numpad7, KeyCode::Numpad8, KeyCode::Numpad9,
    KeyCode::NumpadPeriod, KeyCode::NumpadDivide, KeyCode::NumpadMultiply, KeyCode::NumpadSubtract,
    KeyCode::NumpadAdd, KeyCode::NumpadEnter, KeyCode::NumpadLock,
    KeyCode::Escape, KeyCode::Backspace, KeyCode::Tab, KeyCode::Return, KeyCode::Delete, KeyCode::Spacebar,
];

fn decimal_separators(l: usize) -> Vec<char> {
    match l {
        L_NO | L_FISE => vec![','],
        // German keypads print a comma, the crate types a full stop and nowhere claims a comma:
        // both accepted (DESIGN §6.3)
        // AZERTY: KBDFR types a full stop, French keypads and the French locale use a comma
        L_DE | L_FR => vec!['.', ','],
        _ => vec!['.'],
    }
}

/// What C15 admits for key `k` in modifier record `bits` (None: key not in C15's scope).
fn c15_accepted(l: usize, k: KeyCode, bits: u16, h: HandleControl) -> Option<Vec<DecodedKey>> {
    let fa = facts(bits);
    let uni = |c: char| vec![DecodedKey::Unicode(c)];
    Some(if let Some((d, alias)) = numpad_digit(k) {
        if fa.num {
            uni(d)
        } else {
            match alias {
                Some(a) => vec![DecodedKey::RawKey(a)],
                None => vec![DecodedKey::Unicode(d), DecodedKey::RawKey(k)], // Numpad5: no alias in the statement
            }
        }
    } else {
        match k {
            KeyCode::NumpadDivide => uni('/'),
            KeyCode::NumpadMultiply => uni('*'),
            KeyCode::NumpadSubtract => uni('-'),
            KeyCode::NumpadAdd => uni('+'),
            KeyCode::NumpadEnter => match out(l, Form::Bare, KeyCode::Return, bits, h) {
                Ok(d) => vec![d],
                Err(_) => vec![],
            },
            KeyCode::NumpadPeriod => {
                if fa.num {
                    decimal_separators(l).into_iter().map(DecodedKey::Unicode).collect()
                } else {
                    uni('\u{7F}')
                }
            }
            KeyCode::NumpadLock => vec![DecodedKey::RawKey(KeyCode::NumpadLock)],
            KeyCode::Escape => uni('\u{1B}'),
            KeyCode::Backspace => uni('\u{08}'),
            KeyCode::Tab => uni('\u{09}'),
            KeyCode::Return => uni('\u{0A}'),
            KeyCode::Delete => uni('\u{7F}'),
            KeyCode::Spacebar => uni(' '),
            _ => return None,
        }
    })
}

fn c15_cell(run: &mut Run, l: usize, k: KeyCode, bits: u16, h: HandleControl) {
    let f = Form::Bare;
    let got = out(l, f, k, bits, h);
    run.eval(1);
    let fa = facts(bits);
    if !fa.num || fa.shift || fa.ctrl || bits & (M_LALT | M_RALT) != 0 {
        run.nontrivial_fp(fp(&("c15", l, key_idx(k), bits, mode_idx(h))));
    }
    let Some(accepted) = c15_accepted(l, k, bits, h) else { return };
    let ok = matches!(&got, Ok(d) if accepted.contains(d));
    if !ok {
        let want = accepted.iter().map(dk_str).collect::<Vec<_>>().join("|");
        cell_violation(run, "C15", "numpad-editing", l, f, k, bits, h, &want, &got,
            format!("{}: key {:?} with modifiers {} (mode {}) yields {}; required: {}", LAYOUT_NAMES[l], k, mods_str(bits), mode_name(h), out_str(&got), want));
    }
}

pub fn c15(run: &mut Run) {
    run.rule = "Exhaustive: 10 layouts x (17 numpad keys + Escape, Backspace, Tab, Return, Delete, Space) x 512 modifier records x 2 modes against the numpad / editing-key table of the property statement: digits with NumLock on, Insert/End/Down/PageDown/Left/Right/Home/Up/PageUp as raw keys with it off (Numpad5 off: '5' or its own raw key), operators / * - + always, NumpadEnter = what Return yields in the same state, decimal key = the layout's separator (',' for No105/FiSe105, '.' elsewhere; De105 and Azerty: either) with NumLock on and U+007F with it off, editing keys U+001B/0008/0009/000A/007F/0020. Event-history layer: each of the 512 modifier records reached by a witness history of key events, then the key pressed through Keyboard::process_keyevent. Non-trivial = case with NumLock off or any of Shift/Ctrl/Alt/AltGr held; distinct = (layout, key, record, mode).".into();
    run.assumptions = vec!["De105 and Azerty numpad decimal: '.' (what the crate and Windows type) and ',' (what DIN / French keyboards print) are both accepted; the statement names no separator per layout".into()];
    for l in 0..N_LAYOUTS {
        for k in C15_KEYS {
            for h in MODES {
                for bits in 0..N_MODS {
                    c15_cell(run, l, k, bits, h);
                }
            }
        }
        let k = C15_KEYS[(l * 5) % 17];
        let (a, b) = (out(l, Form::Bare, k, M_NUMLOCK | M_LSHIFT, HandleControl::Ignore), out(l, Form::Bare, k, M_RCTRL, HandleControl::MapLettersToUnicode));
        run.sample(|| json!({"layout":LAYOUT_NAMES[l],"key":key_name(k),"numlock+lshift":out_str(&a),"rctrl (NumLock off, Map)":out_str(&b)}));
    }
    run.part("cells", json!({"cells": N_LAYOUTS * 23 * 512 * 2}));
    c15_histories(run);
    run.exhaustive = true;
}

// =======================================================================================
// C16
// =======================================================================================
fn always_raw(k: KeyCode) -> bool {
    use KeyCode::*;
    matches!(
        k,
        F1 | F2 | F3 | F4 | F5 | F6 | F7 | F8 | F9 | F10 | F11 | F12 | PrintScreen | SysRq | ScrollLock | PauseBreak
            | Insert | Home | PageUp | End | PageDown | ArrowUp | ArrowDown | ArrowLeft | ArrowRight
            | NumpadLock | CapsLock | LShift | RShift | LControl | RControl | LAlt | RAltGr | LWin | RWin | Apps
            | PrevTrack | NextTrack | Mute | Calculator | Play | Stop | VolumeDown | VolumeUp | WWWHome
            | PowerOnTestOk | TooManyKeys | RControl2 | RAlt2 | Oem9 | Oem10 | Oem11
    )
}

fn c16_cell(run: &mut Run, l: usize, f: Form, k: KeyCode, bits: u16, h: HandleControl) {
    let got = out(l, f, k, bits, h);
    run.eval(1);
    let name = LAYOUT_NAMES[l];
    if always_raw(k) {
        run.nontrivial_fp(fp(&("c16", l, f as u8, key_idx(k), bits, mode_idx(h))));
        if got != Ok(DecodedKey::RawKey(k)) {
            cell_violation(run, "C16", "always-raw", l, f, k, bits, h, &format!("Raw({:?})", k), &got,
                format!("{} ({}): the character-less key {:?} with modifiers {} (mode {}) decodes to {} instead of its own raw key code", name, form_name(f), k, mods_str(bits), mode_name(h), out_str(&got)));
        }
        return;
    }
    match &got {
        Ok(DecodedKey::RawKey(x)) => {
            run.nontrivial_fp(fp(&("c16", l, f as u8, key_idx(k), bits, mode_idx(h))));
            let alias_ok = !facts(bits).num
                && (matches!(numpad_digit(k), Some((_, Some(a))) if a == *x) || (k == KeyCode::NumpadPeriod && *x == KeyCode::Delete));
            if *x != k && !alias_ok {
                cell_violation(run, "C16", "raw-is-own-or-alias", l, f, k, bits, h, &format!("Raw({:?})-or-char", k), &got,
                    format!("{} ({}): key {:?} with modifiers {} (mode {}) decodes to the raw key {:?}, which is neither its own code nor its NumLock-off navigation alias", name, form_name(f), k, mods_str(bits), mode_name(h), x));
            }
        }
        Ok(_) => {}
        Err(_) => cell_violation(run, "C16", "panic", l, f, k, bits, h, "a value", &got, format!("{}: map_keycode({:?}, {}) panics", name, k, mods_str(bits))),
    }
}

pub fn c16(run: &mut Run) {
    run.rule = "Exhaustive: 30 layout objects (10 layouts x bare / AnyLayout / &AnyLayout) x 124 keys x 512 modifier records x 2 modes. The 52 keys that carry no character on any keyboard (F1-F12, PrintScreen, SysRq, ScrollLock, PauseBreak, Insert/Home/PageUp/End/PageDown, arrows, NumpadLock, CapsLock, Shift/Ctrl/Alt/Win/Apps keys, 9 media keys, PowerOnTestOk, TooManyKeys, RControl2, RAlt2, Oem9-Oem11) must decode to exactly RawKey(self). Any RawKey(x) output for any key must have x = the pressed key, or the key is a numpad key, NumLock is off and x is its navigation alias. Event-history layer: after the witness history of every modifier record (optionally followed by a complete Pause or PrintScreen sequence) each of the 52 keys pressed through Keyboard::process_keyevent yields its own raw code (NumpadLock while the hidden Pause-Ctrl is held: PauseBreak). Non-trivial = case producing (or required to produce) a RawKey; distinct = (object, key, record, mode).".into();
    run.assumptions = vec!["Delete is accepted as the NumLock-off alias of the numpad decimal key in this check (C15 decides what that key must actually type)".into()];
    for l in 0..N_LAYOUTS {
        for f in FORMS {
            for &k in ALL_KEYS {
                for h in MODES {
                    for bits in 0..N_MODS {
                        c16_cell(run, l, f, k, bits, h);
                    }
                }
            }
        }
        let k = [KeyCode::F5, KeyCode::ArrowUp, KeyCode::Oem10, KeyCode::Numpad3, KeyCode::RAlt2][l % 5];
        let o = out(l, Form::AnyRef, k, M_LSHIFT | M_RALT, HandleControl::MapLettersToUnicode);
        run.sample(|| json!({"layout":LAYOUT_NAMES[l],"form":"&AnyLayout","key":key_name(k),"modifiers":"lshift+ralt (NumLock off)","observed":out_str(&o)}));
    }
    run.part("cells", json!({"cells": 30 * ALL_KEYS.len() * 1024, "always_raw_keys": ALL_KEYS.iter().filter(|k| always_raw(**k)).count()}));
    c16_histories(run);
    run.exhaustive = true;
}

// =======================================================================================
// C17
// =======================================================================================
fn c17_cell(run: &mut Run, l: usize, f: Form, k: KeyCode, bits: u16, h: HandleControl, distinguishing: bool) {
    let a = out(l, f, k, bits, h);
    let b = out(l, Form::Bare, k, bits, h);
    run.eval(1);
    if distinguishing {
        run.nontrivial_fp(fp(&("c17", l, f as u8, key_idx(k), bits, mode_idx(h))));
    }
    if a != b {
        cell_violation(run, "C17", "wrapper-equals-wrapped", l, f, k, bits, h, &out_str(&b), &a,
            format!("{} holding {}: key {:?} with modifiers {} (mode {}) yields {}, the wrapped layout itself yields {}", form_name(f), LAYOUT_NAMES[l], k, mods_str(bits), mode_name(h), out_str(&a), out_str(&b)));
    }
}

pub fn c17(run: &mut Run) {
    run.rule = "Exhaustive differential: 10 AnyLayout variants x {by value, by reference} x 124 keys x 512 modifier records x 2 modes; the wrapper's output must equal the bare layout's. Discrimination: for every pair of bare layouts the number of points on which they differ is measured (all pairs must be distinguishable, so delegating to another layout cannot pass by coincidence). Non-trivial = point where the wrapped layout differs from at least one other layout; distinct = (variant, form, key, record, mode).".into();
    run.assumptions = vec!["variant switching through EventDecoder::change_layout is covered by C14".into()];
    // discrimination matrix on the full domain
    let mut diff = vec![vec![0u64; N_LAYOUTS]; N_LAYOUTS];
    let mut table: Vec<Vec<Out>> = Vec::new();
    for l in 0..N_LAYOUTS {
        let mut row = Vec::with_capacity(ALL_KEYS.len() * 1024);
        for &k in ALL_KEYS {
            for h in MODES {
                for bits in 0..N_MODS {
                    row.push(out(l, Form::Bare, k, bits, h));
                }
            }
        }
        table.push(row);
    }
    let npoints = table[0].len();
    let mut distinguishing = vec![vec![false; npoints]; N_LAYOUTS];
    for a in 0..N_LAYOUTS {
        for b in 0..N_LAYOUTS {
            if a == b { continue; }
            for p in 0..npoints {
                if table[a][p] != table[b][p] {
                    diff[a][b] += 1;
                    distinguishing[a][p] = true;
                }
            }
        }
    }
    let mut min_pair = (u64::MAX, 0, 0);
    for a in 0..N_LAYOUTS {
        for b in (a + 1)..N_LAYOUTS {
            if diff[a][b] < min_pair.0 { min_pair = (diff[a][b], a, b); }
            if diff[a][b] == 0 {
                run.inconclusive.push(format!("layouts {} and {} are indistinguishable; crossed delegation between them cannot be detected", LAYOUT_NAMES[a], LAYOUT_NAMES[b]));
            }
        }
    }
    for l in 0..N_LAYOUTS {
        for f in [Form::AnyVal, Form::AnyRef] {
            let mut p = 0;
            for &k in ALL_KEYS {
                for h in MODES {
                    for bits in 0..N_MODS {
                        c17_cell(run, l, f, k, bits, h, distinguishing[l][p]);
                        p += 1;
                    }
                }
            }
        }
        let k = [KeyCode::Q, KeyCode::Oem7, KeyCode::Key2, KeyCode::Y][l % 4];
        let (a, b, c) = (out(l, Form::Bare, k, M_LSHIFT, HandleControl::Ignore), out(l, Form::AnyVal, k, M_LSHIFT, HandleControl::Ignore), out(l, Form::AnyRef, k, M_LSHIFT, HandleControl::Ignore));
        run.sample(|| json!({"variant":LAYOUT_NAMES[l],"key":key_name(k),"modifiers":"lshift","bare":out_str(&a),"AnyLayout":out_str(&b),"&AnyLayout":out_str(&c)}));
    }
    run.part("cells", json!({"cells": N_LAYOUTS * 2 * npoints, "least_distinguishable_pair": {"layouts": [LAYOUT_NAMES[min_pair.1], LAYOUT_NAMES[min_pair.2]], "differing_points": min_pair.0}}));
    run.exhaustive = true;
}


// =======================================================================================
// Event-history layers (C09, C10, C15): the same relations observed through
// Keyboard::process_keyevent, with the modifier state defined by a generated history of
// key events (what is *held* per the history), not by a constructed Modifiers record.
// =======================================================================================
use crate::model::mods as mm;

type Hist = Vec<(KeyCode, KeyState)>;

fn hist_text(h: &[(KeyCode, KeyState)]) -> String {
    h.iter().map(|(k, s)| format!("{:?}{}", k, state_arrow(*s))).collect::<Vec<_>>().join(" ")
}
fn hist_json(h: &[(KeyCode, KeyState)]) -> Value {
    Value::Array(h.iter().map(|(k, s)| json!([key_name(*k), state_name(*s)])).collect())
}
fn hist_from_json(v: &Value) -> Hist {
    v.as_array()
        .map(|a| a.iter().filter_map(|e| Some((key_by_name(e.get(0)?.as_str()?)?, state_by_name(e.get(1)?.as_str()?)?))).collect())
        .unwrap_or_default()
}

/// Run `h` then press `k` on a fresh Keyboard<AnyLayout(l), Set2>; returns what the press
/// returned and the model's modifier record at that moment.
fn press_after(l: usize, h: &[(KeyCode, KeyState)], k: KeyCode, mode: HandleControl) -> (Result<Option<DecodedKey>, String>, u16) {
    let mut model = mm::INITIAL_MODS;
    for (hk, hs) in h {
        model = mm::step(model, *hk, *hs);
    }
    let r = guard(|| {
        let mut kb = Keyboard::new(ScancodeSet2::new(), any_layout(l), mode);
        for (hk, hs) in h {
            kb.process_keyevent(KeyEvent::new(*hk, *hs));
        }
        kb.process_keyevent(KeyEvent::new(k, KeyState::Down))
    });
    (r, model)
}

/// all sequences of length 0..=max over an alphabet of events
fn all_sequences(alpha: &[(KeyCode, KeyState)], max: usize) -> Vec<Hist> {
    let mut all: Vec<Hist> = vec![vec![]];
    let mut frontier: Vec<Hist> = vec![vec![]];
    for _ in 0..max {
        let mut next = Vec::new();
        for s in &frontier {
            for a in alpha {
                let mut t = s.clone();
                t.push(*a);
                next.push(t);
            }
        }
        all.extend(next.iter().cloned());
        frontier = next;
    }
    all
}

fn hist_case(check: &str, l: usize, h: &[(KeyCode, KeyState)], k: KeyCode, mode: HandleControl) -> Value {
    json!({"kind":"layout_history","check":check,"layout":LAYOUT_NAMES[l],"history":hist_json(h),"text":hist_text(h),"key":key_name(k),"mode":mode_name(mode)})
}
fn opt_out_str(r: &Result<Option<DecodedKey>, String>) -> String {
    match r {
        Ok(o) => odk_str(o),
        Err(p) => panic_sig(p),
    }
}

/// C03 through the event API: the level is selected by a *history* (which modifier keys are
/// held), and the key itself may have been pressed before at another level (typematic repeat,
/// decode caches). The level reached is computed by the modifier model; only plain levels
/// (no Ctrl, no left Alt, CapsLock off) are generated.
/// Returns whether the case was judged (an unconstrained cell is executed but not judged).
fn c03_hist_case(run: &mut Run, l: usize, h: &[(KeyCode, KeyState)], k: KeyCode) -> bool {
    let table = lt::table(l);
    let Some(cell) = table.iter().find(|c| c.key == k) else { return false };
    run.eval(1);
    let (got, model) = press_after(l, h, k, HandleControl::Ignore);
    let fa = facts(model);
    if fa.ctrl || fa.caps || model & M_LALT != 0 || (fa.shift && fa.altgr) {
        return false;
    }
    let (want, lvl) = if fa.altgr {
        match &cell.altgr {
            AltGrWant::Char(c) => (Want::OneOf(vec![*c]), "AltGr"),
            _ => return false,
        }
    } else if fa.shift {
        (cell.shift.clone(), "shifted")
    } else {
        (cell.base.clone(), "unshifted")
    };
    if matches!(want, Want::Any) {
        return false;
    }
    // an AltGr character is required only if the layout has that level at all (C12's business otherwise)
    if fa.altgr && out(l, Form::Bare, k, M_NUMLOCK, HandleControl::Ignore) == out(l, Form::Bare, k, M_NUMLOCK | M_RALT, HandleControl::Ignore) {
        return false;
    }
    let ok = matches!(&got, Ok(Some(DecodedKey::Unicode(c))) if want.accepts(*c));
    if !ok {
        run.violation(Violation {
            sig: format!("C03:history:{}:[{}]:{:?}:want={}:got={}", LAYOUT_NAMES[l], hist_text(h).replace(' ', "."), k, want.text(), opt_out_str(&got)),
            what: format!("{}: after the key events [{}] (held per the history: {}), pressing {:?} at the {} level yields {}; the national layout prints {}", LAYOUT_NAMES[l], hist_text(h), mods_str(model), k, lvl, opt_out_str(&got), want.text()),
            case: hist_case("C03", l, h, k, HandleControl::Ignore),
        });
    }
    true
}

fn c03_histories(run: &mut Run) {
    use KeyState::*;
    // level-entering / level-leaving event pairs
    let levels: [(&str, Vec<(KeyCode, KeyState)>, Vec<(KeyCode, KeyState)>); 4] = [
        ("base", vec![], vec![]),
        ("lshift", vec![(KeyCode::LShift, Down)], vec![(KeyCode::LShift, Up)]),
        ("rshift", vec![(KeyCode::RShift, Down)], vec![(KeyCode::RShift, Up)]),
        ("altgr", vec![(KeyCode::RAltGr, Down)], vec![(KeyCode::RAltGr, Up)]),
    ];
    let mut n = 0u64;
    for l in 0..N_LAYOUTS {
        for cell in &lt::table(l) {
            let k = cell.key;
            for (i, (_, enter1, leave1)) in levels.iter().enumerate() {
                for (j, (_, enter2, _)) in levels.iter().enumerate() {
                    if i == j {
                        continue;
                    }
                    // the key typed at level 1 (released or still held = typematic), then level 2
                    for variant in 0..4 {
                        let mut h: Hist = enter1.clone();
                        h.push((k, Down));
                        match variant {
                            0 => h.push((k, Up)),
                            1 => {}
                            2 => { h.push((k, Down)); }
                            _ => { h.push((k, Up)); h.push((k, Down)); h.push((k, Down)); }
                        }
                        // leave level 1 before or after entering level 2
                        if variant % 2 == 0 {
                            h.extend(leave1.iter().cloned());
                            h.extend(enter2.iter().cloned());
                        } else {
                            h.extend(enter2.iter().cloned());
                            h.extend(leave1.iter().cloned());
                        }
                        if c03_hist_case(run, l, &h, k) {
                            n += 1;
                        }
                    }
                }
            }
        }
    }
    run.nontrivial_enum(n);
    run.part("levels_selected_by_event_histories", json!({"judged_cases": n, "shape": "enter level 1, press the key (release it / keep it held / repeat it), move to level 2 (leave-then-enter or enter-then-leave), press the key"}));
    let hs: Hist = vec![(KeyCode::Q, Down), (KeyCode::Q, Down), (KeyCode::RAltGr, Down)];
    run.sample(|| json!({"layer":"levels-by-history","layout":"De105Key","history":hist_text(&hs),"then":"Q↓","observed":opt_out_str(&press_after(L_DE, &hs, KeyCode::Q, HandleControl::Ignore).0)}));
}

fn c09_hist_case(run: &mut Run, l: usize, h: &[(KeyCode, KeyState)], k: KeyCode, mode: HandleControl, letter: char) {
    run.eval(1);
    let (got, model) = press_after(l, h, k, mode);
    let fa = facts(model);
    let want = if mode == HandleControl::MapLettersToUnicode && fa.ctrl && model & (M_LALT | M_RALT) == 0 {
        DecodedKey::Unicode(char::from_u32(letter as u32 & 0x1F).unwrap())
    } else if !fa.ctrl || mode == HandleControl::Ignore {
        // Ctrl handling changes nothing on a letter key: what the layout types for these held
        // modifiers with mapping disabled and Ctrl released
        match out(l, Form::Bare, k, strip_ctrl(model), HandleControl::Ignore) {
            Ok(d) => d,
            Err(_) => return,
        }
    } else {
        return;
    };
    if got != Ok(Some(want)) {
        run.violation(Violation {
            sig: format!("C09:history:{}:[{}]:{:?}:{}:want={}:got={}", LAYOUT_NAMES[l], hist_text(h).replace(' ', "."), k, mode_name(mode), dk_str(&want), opt_out_str(&got)),
            what: format!("{}: after the key events [{}] (held per the history: {}), pressing {:?} (types '{}') in mode {} yields {}; required {}", LAYOUT_NAMES[l], hist_text(h), mods_str(model), k, letter, mode_name(mode), opt_out_str(&got), dk_str(&want)),
            case: hist_case("C09", l, h, k, mode),
        });
    }
}

fn c09_histories(run: &mut Run) {
    use KeyCode::*;
    use KeyState::*;
    // PROBE stands for the letter key that is pressed at the end (a previous press / release
    // of the same key: typematic repeat, decode caches)
    const PROBE: KeyCode = KeyCode::PauseBreak;
    let alpha = [(LControl, Down), (LControl, Up), (RControl, Down), (RControl, Up), (LShift, Down), (LShift, Up), (CapsLock, Down), (F1, Down),
                 (RAltGr, Down), (RAltGr, Up), (LAlt, Down), (LAlt, Up), (PROBE, Down), (PROBE, Up)];
    let seqs0 = all_sequences(&alpha, 3);
    // length 4: the 8 Ctrl/Shift/Caps/F1 symbols only (as before) to keep the count bounded
    let mut seqs = seqs0;
    seqs.extend(all_sequences(&alpha[..8], 4).into_iter().filter(|s| s.len() == 4));
    let mut n = 0u64;
    for l in 0..N_LAYOUTS {
        let letters: Vec<(KeyCode, char)> = ALL_KEYS.iter().filter_map(|k| letter_of(l, *k).map(|c| (*k, c))).collect();
        for (si, h0) in seqs.iter().enumerate() {
            let uses_probe = h0.iter().any(|(k, _)| *k == PROBE);
            let h = h0;
            let mut model = mm::INITIAL_MODS;
            for (hk, hs) in h { model = mm::step(model, *hk, *hs); }
            for mode in MODES {
                // all letters for short histories, a rotating sample of 4 for the longest ones
                let pick: Vec<&(KeyCode, char)> = if h.len() <= 3 { letters.iter().collect() } else { (0..4).map(|j| &letters[(si * 7 + j * 5) % letters.len()]).collect() };
                for (k, c) in pick {
                    if uses_probe {
                        let hh: Hist = h.iter().map(|(hk, hs)| (if *hk == PROBE { *k } else { *hk }, *hs)).collect();
                        c09_hist_case(run, l, &hh, *k, mode, *c);
                    } else {
                        c09_hist_case(run, l, h, *k, mode, *c);
                    }
                    n += 1;
                    if facts(model).ctrl { run.nontrivial_enum(1); }
                }
            }
            if l == 3 && si % 1200 == 77 {
                let hh = h.clone();
                let (k, c) = letters[si % letters.len()];
                let (got, m) = press_after(l, &hh, k, HandleControl::MapLettersToUnicode);
                run.sample(|| json!({"layer":"event-history","layout":LAYOUT_NAMES[l],"history":hist_text(&hh),"held_per_history":mods_str(m),"press":key_name(k),"types":c.to_string(),"mode":"Map","returned":opt_out_str(&got)}));
            }
        }
    }
    run.part("event_histories", json!({"alphabet": alpha.iter().map(|(k,s)| format!("{:?} {}", k, state_name(*s))).collect::<Vec<_>>(), "sequences": seqs.len(), "cases": n}));
}

fn c10_hist_case(run: &mut Run, l: usize, h: &[(KeyCode, KeyState)], k: KeyCode, mode: HandleControl, cased: Option<(char, char)>) {
    run.eval(1);
    let (got, model) = press_after(l, h, k, mode);
    let fa = facts(model);
    let want = match cased {
        Some((b, s)) => DecodedKey::Unicode(if fa.shift ^ fa.caps { s } else { b }),
        None => match out(l, Form::Bare, k, model & !M_CAPSLOCK, mode) {
            Ok(d) => d,
            Err(_) => return,
        },
    };
    if got != Ok(Some(want)) {
        run.violation(Violation {
            sig: format!("C10:history:{}:[{}]:{:?}:{}:want={}:got={}", LAYOUT_NAMES[l], hist_text(h).replace(' ', "."), k, mode_name(mode), dk_str(&want), opt_out_str(&got)),
            what: format!("{}: after the key events [{}] (per the history: CapsLock {}, Shift {}), pressing {:?} yields {}; required {} ({})", LAYOUT_NAMES[l], hist_text(h), if fa.caps { "on" } else { "off" }, if fa.shift { "held" } else { "released" }, k, opt_out_str(&got), dk_str(&want), if cased.is_some() { "cased-letter key: CapsLock inverts Shift" } else { "not a cased-letter key: CapsLock must not matter" }),
            case: hist_case("C10", l, h, k, mode),
        });
    }
}

fn c10_histories(run: &mut Run) {
    use KeyCode::*;
    use KeyState::*;
    const PROBE: KeyCode = KeyCode::PauseBreak;
    let alpha = [(CapsLock, Down), (CapsLock, Up), (LShift, Down), (LShift, Up), (RShift, Down), (RShift, Up), (PROBE, Down), (PROBE, Up)];
    let seqs = all_sequences(&alpha, 4);
    let mut n = 0u64;
    for l in 0..N_LAYOUTS {
        let keys: Vec<(KeyCode, Option<(char, char)>)> = ALL_KEYS.iter().filter(|k| !mm::is_modifier_key(**k) && **k != PROBE).map(|k| (*k, cased_letter(l, *k))).collect();
        for (si, h0) in seqs.iter().enumerate() {
            let uses_probe = h0.iter().any(|(k, _)| *k == PROBE);
            let h = h0;
            // every key for histories up to 2 events, a rotating sample of 12 keys beyond
            let pick: Vec<&(KeyCode, Option<(char, char)>)> = if h.len() <= 2 { keys.iter().collect() } else { (0..12).map(|j| &keys[(si * 11 + j * 9) % keys.len()]).collect() };
            for (k, cased) in pick {
                if uses_probe {
                    let hh: Hist = h.iter().map(|(hk, hs)| (if *hk == PROBE { *k } else { *hk }, *hs)).collect();
                    c10_hist_case(run, l, &hh, *k, HandleControl::Ignore, *cased);
                } else {
                    c10_hist_case(run, l, h, *k, HandleControl::Ignore, *cased);
                }
                n += 1;
                if cased.is_some() { run.nontrivial_enum(1); }
            }
            if l == 2 && si % 400 == 33 {
                let hh = h.clone();
                let (k, cased) = keys[(si * 3) % keys.len()];
                let (got, m) = press_after(l, &hh, k, HandleControl::Ignore);
                run.sample(|| json!({"layer":"event-history","layout":LAYOUT_NAMES[l],"history":hist_text(&hh),"per_history":mods_str(m),"press":key_name(k),"cased_letter_key":cased.map(|(b,s)| format!("{}/{}",b,s)),"returned":opt_out_str(&got)}));
            }
        }
    }
    run.part("event_histories", json!({"sequences": seqs.len(), "cases": n}));
}

fn c11_hist_case(run: &mut Run, l: usize, bits: u16, k: KeyCode, mode: HandleControl) -> bool {
    let canon = canonical(bits, is_numpad(k));
    if canon == bits {
        return false;
    }
    run.eval(1);
    let (ha, hb): (Hist, Hist) = (mm::witness_history(bits), mm::witness_history(canon));
    let (a, _) = press_after(l, &ha, k, mode);
    let (b, _) = press_after(l, &hb, k, mode);
    if a != b {
        run.violation(Violation {
            sig: format!("C11:history:{}:{:?}:{}:{}:rep={}:got={}", LAYOUT_NAMES[l], k, facts_str(bits), mode_name(mode), opt_out_str(&b), opt_out_str(&a)),
            what: format!("{}: through Keyboard::process_keyevent, key {:?} (mode {}) yields {} when the held modifiers are {} but {} when they are {}, although both are the same abstract state ({})", LAYOUT_NAMES[l], k, mode_name(mode), opt_out_str(&a), mods_str(bits), opt_out_str(&b), mods_str(canon), facts_str(bits)),
            case: json!({"kind":"layout_history","check":"C11","layout":LAYOUT_NAMES[l],"mods":bits,"key":key_name(k),"mode":mode_name(mode),"history":hist_json(&ha),"text":hist_text(&ha)}),
        });
    }
    true
}

fn c11_histories(run: &mut Run) {
    let mut n = 0u64;
    for l in 0..N_LAYOUTS {
        for &k in ALL_KEYS {
            if mm::is_modifier_key(k) { continue; }
            for mode in MODES {
                for bits in 0..N_MODS {
                    if c11_hist_case(run, l, bits, k, mode) {
                        n += 1;
                    }
                }
            }
        }
    }
    run.nontrivial_enum(n);
    run.part("event_histories", json!({"cases": n, "note": "each modifier record and its class representative reached by witness histories of key events, key pressed through Keyboard::process_keyevent"}));
}

fn c16_hist_case(run: &mut Run, l: usize, h: &[(KeyCode, KeyState)], k: KeyCode, mode: HandleControl) {
    run.eval(1);
    let (got, model) = press_after(l, h, k, mode);
    let want = if k == KeyCode::NumpadLock && model & M_RCTRL2 != 0 { KeyCode::PauseBreak } else { k };
    if got != Ok(Some(DecodedKey::RawKey(want))) {
        run.violation(Violation {
            sig: format!("C16:history:{}:[{}]:{:?}:{}:got={}", LAYOUT_NAMES[l], hist_text(h).replace(' ', "."), k, mode_name(mode), opt_out_str(&got)),
            what: format!("{}: after the key events [{}] (held per the history: {}), pressing the character-less key {:?} yields {} instead of Raw({:?})", LAYOUT_NAMES[l], hist_text(h), mods_str(model), k, opt_out_str(&got), want),
            case: hist_case("C16", l, h, k, mode),
        });
    }
}

fn c16_histories(run: &mut Run) {
    use KeyCode::*;
    use KeyState::*;
    let pause: Hist = vec![(RControl2, Down), (NumpadLock, Down), (RControl2, Up), (NumpadLock, Up)];
    let printscreen: Hist = vec![(RAlt2, Down), (PrintScreen, Down), (PrintScreen, Up), (RAlt2, Up)];
    let mut n = 0u64;
    for l in 0..N_LAYOUTS {
        for bits in 0..N_MODS {
            for (pi, prefix) in [vec![], pause.clone(), printscreen.clone()].iter().enumerate() {
                // the idioms leave the modifier record unchanged; witness first, idiom after
                if pi > 0 && bits % 8 != 0 { continue; }
                let mut h: Hist = mm::witness_history(bits);
                if bits & M_RCTRL2 == 0 {
                    h.extend(prefix.iter().copied());
                } else if pi > 0 {
                    continue;
                }
                for &k in ALL_KEYS {
                    if !always_raw(k) { continue; }
                    c16_hist_case(run, l, &h, k, if bits & 1 == 0 { HandleControl::Ignore } else { HandleControl::MapLettersToUnicode });
                    n += 1;
                }
            }
        }
    }
    run.nontrivial_enum(n);
    run.part("event_histories", json!({"cases": n, "note": "witness history of every modifier record (optionally followed by a complete Pause or PrintScreen sequence), then each of the 52 character-less keys pressed through Keyboard::process_keyevent"}));
}

fn c15_hist_case(run: &mut Run, l: usize, h: &[(KeyCode, KeyState)], k: KeyCode, mode: HandleControl) {
    run.eval(1);
    let (got, model) = press_after(l, h, k, mode);
    let Some(accepted) = c15_accepted(l, k, model, mode) else { return };
    let ok = matches!(&got, Ok(Some(d)) if accepted.contains(d));
    if !ok {
        let want = accepted.iter().map(dk_str).collect::<Vec<_>>().join("|");
        run.violation(Violation {
            sig: format!("C15:history:{}:[{}]:{:?}:{}:want={}:got={}", LAYOUT_NAMES[l], hist_text(h).replace(' ', "."), k, mode_name(mode), want, opt_out_str(&got)),
            what: format!("{}: after the key events [{}] (per the history: {}), pressing {:?} in mode {} yields {}; required: {}", LAYOUT_NAMES[l], hist_text(h), mods_str(model), k, mode_name(mode), opt_out_str(&got), want),
            case: hist_case("C15", l, h, k, mode),
        });
    }
}

fn c15_histories(run: &mut Run) {
    let mut n = 0u64;
    for l in 0..N_LAYOUTS {
        for bits in 0..N_MODS {
            let h: Hist = mm::witness_history(bits);
            for mode in MODES {
                for k in C15_KEYS {
                    if k == KeyCode::NumpadLock { continue; } // answered by the decoder itself (C14)
                    c15_hist_case(run, l, &h, k, mode);
                    n += 1;
                    run.nontrivial_enum(1);
                }
            }
        }
    }
    run.part("event_histories", json!({"histories": "witness history of each of the 512 modifier records", "cases": n}));
}

// =======================================================================================
// replay
// =======================================================================================
pub fn replay(run: &mut Run, case: &Value) -> bool {
    let kind = case["kind"].as_str().unwrap_or("");
    match kind {
        "typed" => {
            c03_replay(run, case);
            true
        }
        "typeable" => {
            let l = layout_by_name(case["layout"].as_str().unwrap_or("")).unwrap_or(0);
            if let Some(c) = char::from_u32(case["char"].as_u64().unwrap_or(0x20) as u32) {
                let f = form_by_name(case["form"].as_str().unwrap_or("bare")).unwrap_or(Form::Bare);
                c12_char(run, l, f, c);
            }
            true
        }
        "predicate" => {
            c11_predicates(run, case["mods"].as_u64().unwrap_or(0) as u16);
            c11_is_caps(run);
            true
        }
        "layout_history" => {
            let l = layout_by_name(case["layout"].as_str().unwrap_or("")).unwrap_or(0);
            let Some(k) = key_by_name(case["key"].as_str().unwrap_or("")) else { return false };
            let h = hist_from_json(&case["history"]);
            let mode = mode_by_name(case["mode"].as_str().unwrap_or("Ignore")).unwrap_or(HandleControl::Ignore);
            match case["check"].as_str().unwrap_or("") {
                "C03" => { c03_hist_case(run, l, &h, k); }
                "C09" => { if let Some(c) = letter_of(l, k) { c09_hist_case(run, l, &h, k, mode, c) } }
                "C10" => c10_hist_case(run, l, &h, k, mode, cased_letter(l, k)),
                "C15" => c15_hist_case(run, l, &h, k, mode),
                "C16" => c16_hist_case(run, l, &h, k, mode),
                "C11" => { c11_hist_case(run, l, case["mods"].as_u64().unwrap_or(0) as u16, k, mode); }
                _ => return false,
            }
            true
        }
        "layout_cell" => {
            let l = layout_by_name(case["layout"].as_str().unwrap_or("")).unwrap_or(0);
            let f = form_by_name(case["form"].as_str().unwrap_or("bare")).unwrap_or(Form::Bare);
            let Some(k) = key_by_name(case["key"].as_str().unwrap_or("")) else { return false };
            let bits = case["mods"].as_u64().unwrap_or(0) as u16;
            let h = mode_by_name(case["mode"].as_str().unwrap_or("Ignore")).unwrap_or(HandleControl::Ignore);
            match case["check"].as_str().unwrap_or("") {
                "C03" => c03_replay(run, case),
                "C09" => c09_cell(run, l, k, bits, letter_of(l, k)),
                "C10" => c10_cell(run, l, k, bits & !M_CAPSLOCK, h, cased_letter(l, k)),
                "C11" => c11_cell(run, l, k, bits, h),
                "C15" => c15_cell(run, l, k, bits, h),
                "C16" => c16_cell(run, l, f, k, bits, h),
                "C17" => c17_cell(run, l, f, k, bits, h, true),
                _ => return false,
            }
            true
        }
        _ => false,
    }
}
