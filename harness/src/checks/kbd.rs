//! Keyboard-level checks: C18 (Keyboard == three separately wired stages, stages isolated)
//! and C08 (no operation panics or overflows).
use crate::checks::events::{encode_args, EncLayout};
use crate::gen::{self, Op};
use crate::graph::{Dec, Graph, Step};
use crate::model::frame::{self, BitModel};
use crate::model::mods as mm;
use crate::model::sc::{self as msc};
use crate::prop::run_prop;
use crate::report::{fp, guard, panic_sig, Run, Violation};
use crate::universe::*;
use rayon::prelude::*;
use serde_json::{json, Value};
use std::cell::RefCell;

// ---------------------------------------------------------------------------------------
// op text form (signatures, replay files)
// ---------------------------------------------------------------------------------------
pub fn ops_text(ops: &[Op]) -> String {
    let mut out = String::new();
    let mut last_bit = false;
    for o in ops {
        let is_bit = matches!(o, Op::Bit(_));
        if !out.is_empty() && !(is_bit && last_bit) {
            out.push('.');
        }
        match o {
            Op::Bit(b) => out.push(if *b { '1' } else { '0' }),
            Op::Word(w) => out.push_str(&format!("W{:03X}", w)),
            Op::Byte(b) => out.push_str(&format!("B{:02X}", b)),
            Op::Event(k, s) => out.push_str(&format!("E{:?}{}", k, state_arrow(*s))),
            Op::Clear => out.push('c'),
            Op::SetCtrl(m) => out.push_str(if *m == HandleControl::MapLettersToUnicode { "mMap" } else { "mIgn" }),
        }
        last_bit = is_bit;
    }
    out
}
fn ops_json(ops: &[Op]) -> Value {
    Value::Array(ops.iter().map(gen::op_json).collect())
}
fn ops_from_json(v: &Value) -> Vec<Op> {
    v.as_array().map(|a| a.iter().filter_map(gen::op_from_json).collect()).unwrap_or_default()
}

// ---------------------------------------------------------------------------------------
// The reference: three stages owned separately and wired exactly as the property says.
// ---------------------------------------------------------------------------------------
struct Wired<S: ScancodeSet> {
    ps2: Ps2Decoder,
    sc: S,
    ed: EventDecoder<EncLayout>,
}

#[derive(Clone, Debug, PartialEq)]
enum Ret {
    Sc(Result<Option<KeyEvent>, Error>),
    Dk(Option<DecodedKey>),
    Unit,
    Mode(HandleControl),
}
fn ret_str(r: &Ret) -> String {
    match r {
        Ret::Sc(o) => sc_out_str(o),
        Ret::Dk(d) => match d {
            Some(DecodedKey::Unicode(c)) => match crate::checks::events::decode_args(*c) {
                Some((_, k, b, h)) => format!("layout({:?},{},{})", k, mods_str(b), mode_name(h)),
                None => odk_str(d),
            },
            _ => odk_str(d),
        },
        Ret::Unit => "()".into(),
        Ret::Mode(m) => mode_name(*m).into(),
    }
}

impl<S: ScancodeSet> Wired<S> {
    fn apply(&mut self, op: &Op) -> Ret {
        match op {
            Op::Bit(b) => Ret::Sc(match self.ps2.add_bit(*b) {
                Err(e) => Err(e),
                Ok(None) => Ok(None),
                Ok(Some(byte)) => self.sc.advance_state(byte),
            }),
            Op::Word(w) => Ret::Sc(match self.ps2.add_word(*w) {
                Err(e) => Err(e),
                Ok(byte) => self.sc.advance_state(byte),
            }),
            Op::Byte(b) => Ret::Sc(self.sc.advance_state(*b)),
            Op::Event(k, s) => Ret::Dk(self.ed.process_keyevent(KeyEvent::new(*k, *s))),
            Op::Clear => {
                self.ps2.clear();
                Ret::Unit
            }
            Op::SetCtrl(m) => {
                self.ed.set_ctrl_handling(*m);
                Ret::Unit
            }
        }
    }
}
fn apply_kbd<S: ScancodeSet>(k: &mut Keyboard<EncLayout, S>, op: &Op) -> Ret {
    match op {
        Op::Bit(b) => Ret::Sc(k.add_bit(*b)),
        Op::Word(w) => Ret::Sc(k.add_word(*w)),
        Op::Byte(b) => Ret::Sc(k.add_byte(*b)),
        Op::Event(key, s) => Ret::Dk(k.process_keyevent(KeyEvent::new(*key, *s))),
        Op::Clear => {
            k.clear();
            Ret::Unit
        }
        Op::SetCtrl(m) => {
            k.set_ctrl_handling(*m);
            Ret::Unit
        }
    }
}

/// Probe suffix that fingerprints every stage behaviourally: a press of A through the
/// argument-encoding layout (modifiers + mode), the byte 0x14 / 0x1D (a different event in
/// every scancode context), and two valid frames bit by bit (pending count and register
/// contents of the frame stage).
fn probe_suffix(set2: bool) -> Vec<Op> {
    let mut v = vec![Op::Event(KeyCode::A, KeyState::Down), Op::Byte(if set2 { 0x14 } else { 0x1D })];
    let w = frame::encode(if set2 { 0x1C } else { 0x1E });
    for _ in 0..2 {
        for i in 0..11 {
            v.push(Op::Bit((w >> i) & 1 != 0));
        }
    }
    v
}

/// (index of first divergence, reference result, real result)
fn diverge<D: Dec>(ops: &[Op], start_mode: HandleControl) -> Result<Option<(usize, String, String)>, String> {
    guard(|| {
        let mut real = Keyboard::new(D::fresh(), EncLayout { id: 0 }, start_mode);
        let mut wired = Wired { ps2: Ps2Decoder::new(), sc: D::fresh(), ed: EventDecoder::new(EncLayout { id: 0 }, start_mode) };
        let suffix = probe_suffix(D::IS_SET2);
        for (i, op) in ops.iter().chain(suffix.iter()).enumerate() {
            let a = wired.apply(op);
            let b = apply_kbd(&mut real, op);
            if a != b {
                return Some((i, ret_str(&a), ret_str(&b)));
            }
            let (ma, mb) = (wired.ed.get_ctrl_handling(), real.get_ctrl_handling());
            if ma != mb {
                return Some((i, format!("mode={}", mode_name(ma)), format!("mode={}", mode_name(mb))));
            }
        }
        None
    })
}

pub fn c18_eval<D: Dec>(run: &mut Run, ops: &[Op], start_mode: HandleControl) {
    run.eval(1);
    let mk = |o: &[Op]| json!({"kind":"kbd_ops","set":D::NAME,"start_mode":mode_name(start_mode),"ops":ops_json(o),"text":ops_text(o)});
    match diverge::<D>(ops, start_mode) {
        Err(p) => run.violation(Violation { sig: format!("kbd:{}:{}:{}", D::NAME, ops_text(ops), panic_sig(&p)), what: format!("panic while running [{}] on Keyboard<_, {}>: {}", ops_text(ops), D::NAME, p), case: mk(ops) }),
        Ok(Some((i, want, got))) => {
            let shown: Vec<Op> = ops.iter().chain(probe_suffix(D::IS_SET2).iter()).take(i + 1).copied().collect();
            let in_probe = i >= ops.len();
            run.violation(Violation {
                sig: format!("kbd:{}:[{}]:step={}{}:wired={}:keyboard={}", D::NAME, ops_text(ops), i, if in_probe { "(probe)" } else { "" }, want.replace(' ', ""), got.replace(' ', "")),
                what: format!("Keyboard<_, {}> diverges from a frame decoder, scancode decoder and event decoder wired separately: after [{}] the operation {} returns {} on the Keyboard but {} on the wired stages{}", D::NAME, ops_text(&shown[..i]), ops_text(&shown[i..]), got, want, if in_probe { " (the operation is part of the probe suffix that fingerprints the stage states after the sequence)" } else { "" }),
                case: mk(ops),
            });
        }
        Ok(None) => {}
    }
}

fn bits_ops(w: u16, n: usize) -> Vec<Op> {
    (0..n).map(|i| Op::Bit((w >> i) & 1 != 0)).collect()
}
fn mod_setup(bits: u16) -> Vec<Op> {
    mm::witness_history(bits).into_iter().map(|(k, s)| Op::Event(k, s)).collect()
}
const MOD_STATES: [u16; 8] = [
    mm::INITIAL_MODS,
    0,
    M_LSHIFT | M_NUMLOCK,
    M_RCTRL | M_CAPSLOCK,
    M_RALT | M_NUMLOCK,
    M_LALT | M_LCTRL,
    M_RCTRL2 | M_NUMLOCK,
    0x1FF,
];

fn contexts<D: Dec>() -> Vec<Vec<u8>> {
    if D::IS_SET2 {
        msc::CTX2S.iter().map(|c| c.history().to_vec()).collect()
    } else {
        msc::CTX1S.iter().map(|c| c.history().to_vec()).collect()
    }
}

/// frame states used when the frame stage is not the fed stage: 64 of the 2047 partial states
fn sampled_frame_states() -> Vec<(usize, u16)> {
    let mut v = vec![(0usize, 0u16)];
    for n in 1..=10usize {
        let all = 1u32 << n;
        let picks = [0u32, all - 1, all / 2, all / 3, (all * 2 / 3) | 1, 1];
        for p in picks.iter().take(if n <= 2 { 2 } else { 6 }) {
            let p = (*p % all) as u16;
            if !v.contains(&(n, p)) {
                v.push((n, p));
            }
        }
    }
    v.truncate(64);
    v
}

fn c18_slices<D: Dec>(run: &mut Run) {
    let ctxs = contexts::<D>();
    let n = std::cell::Cell::new(0u64);
    let mode = HandleControl::MapLettersToUnicode;
    let mut sample_every = 0u64;
    let mut do_case = |run: &mut Run, setup: Vec<Op>, op: Vec<Op>, nontrivial: bool| {
        let mut ops = setup;
        ops.extend(op);
        c18_eval::<D>(run, &ops, mode);
        n.set(n.get() + 1);
        if nontrivial {
            run.nontrivial_enum(1);
        }
        sample_every += 1;
        if sample_every % 60_013 == 0 {
            let o = ops.clone();
            run.sample(|| json!({"layer":"per-operation slice","set":D::NAME,"ops":ops_text(&o),"probe_suffix":ops_text(&probe_suffix(D::IS_SET2))}));
        }
    };
    // add_bit: every frame state x bit x every scancode context x 8 modifier states
    for nb in 0..=10usize {
        for p in 0..(1u32 << nb) {
            for bit in [false, true] {
                for c in &ctxs {
                    for m in MOD_STATES {
                        let mut setup = mod_setup(m);
                        setup.extend(c.iter().map(|b| Op::Byte(*b)));
                        setup.extend(bits_ops(p as u16, nb));
                        do_case(run, setup, vec![Op::Bit(bit)], !c.is_empty() || m != mm::INITIAL_MODS);
                    }
                }
            }
        }
    }
    let after_bits = n.get();
    // add_word: all 2048 words x contexts x 8 modifier states x 3 frame states
    for w in 0..0x800u16 {
        for c in &ctxs {
            for m in MOD_STATES {
                for (nb, p) in [(0usize, 0u16), (3, 0b101), (10, 0x3FF)] {
                    let mut setup = mod_setup(m);
                    setup.extend(c.iter().map(|b| Op::Byte(*b)));
                    setup.extend(bits_ops(p, nb));
                    do_case(run, setup, vec![Op::Word(w)], nb > 0 || !c.is_empty());
                }
            }
        }
    }
    // add_word beyond 11 bits: Keyboard must treat a u16 exactly as its own frame stage does
    // (the reference is the crate's Ps2Decoder, so what that stage does with the high bits is
    // not judged, only that the wrapper adds or removes nothing): all 63488 words >= 0x800 x
    // {no prefix, a prefix pending} x {no bits, 3 bits pending}
    for w in 0x800..=0xFFFFu16 {
        for c in [&ctxs[0], &ctxs[ctxs.len() - 1]] {
            for (nb, p) in [(0usize, 0u16), (3, 0b101)] {
                let mut setup: Vec<Op> = c.iter().map(|b| Op::Byte(*b)).collect();
                setup.extend(bits_ops(p, nb));
                do_case(run, setup, vec![Op::Word(w)], true);
            }
        }
    }
    let after_words = n.get();
    // add_byte: 256 x contexts x 64 frame states x 8 modifier states
    let fstates = sampled_frame_states();
    for b in 0..=255u8 {
        for c in &ctxs {
            for (nb, p) in &fstates {
                for m in MOD_STATES {
                    let mut setup = mod_setup(m);
                    setup.extend(bits_ops(*p, *nb));
                    setup.extend(c.iter().map(|b| Op::Byte(*b)));
                    do_case(run, setup, vec![Op::Byte(b)], *nb > 0);
                }
            }
        }
    }
    let after_bytes = n.get();
    // process_keyevent: 124 x 3 x 64 frame states x contexts (two modifier states)
    for &k in ALL_KEYS {
        for st in KEY_STATES {
            for (nb, p) in &fstates {
                for c in &ctxs {
                    for m in [mm::INITIAL_MODS, M_RSHIFT | M_RCTRL2] {
                        let mut setup = mod_setup(m);
                        setup.extend(bits_ops(*p, *nb));
                        setup.extend(c.iter().map(|b| Op::Byte(*b)));
                        do_case(run, setup, vec![Op::Event(k, st)], *nb > 0 || !c.is_empty());
                    }
                }
            }
        }
    }
    let after_events = n.get();
    // clear and set_ctrl_handling from the full frame-state x context x modifier product
    for nb in 0..=10usize {
        for p in 0..(1u32 << nb) {
            for c in &ctxs {
                for m in MOD_STATES {
                    for op in [Op::Clear, Op::SetCtrl(HandleControl::Ignore), Op::SetCtrl(HandleControl::MapLettersToUnicode)] {
                        let mut setup = mod_setup(m);
                        setup.extend(c.iter().map(|b| Op::Byte(*b)));
                        setup.extend(bits_ops(p as u16, nb));
                        do_case(run, setup, vec![op], nb > 0 && !c.is_empty());
                    }
                }
            }
        }
    }
    run.part(
        &format!("{}_per_operation_slices", D::NAME),
        json!({"add_bit": after_bits, "add_word": after_words - after_bits, "add_byte": after_bytes - after_words, "process_keyevent": after_events - after_bytes, "clear+set_ctrl_handling": n.get() - after_events, "total_sequences": n.get()}),
    );
}

#[derive(Default)]
struct SeqStats {
    cases: u64,
    ops: u64,
    mixes_entry_points: u64,
    rejected_frame_with_prefix_pending: u64,
    clear_pending_with_prefix_pending: u64,
    nontrivial: Vec<u64>,
    samples: Vec<Value>,
}

/// classify a sequence with the reference *models* (frame model + scancode automaton)
fn classify<D: Dec>(ops: &[Op]) -> (bool, bool, bool) {
    let mut fm = BitModel::new();
    let mut c2 = msc::Ctx2::Start;
    let mut c1 = msc::Ctx1::Start;
    let mut kinds = [false; 4];
    let (mut rej_pfx, mut clr_pfx) = (false, false);
    let prefix_pending = |c2: msc::Ctx2, c1: msc::Ctx1| if D::IS_SET2 { c2 != msc::Ctx2::Start } else { c1 != msc::Ctx1::Start };
    let mut feed = |b: u8, c2: &mut msc::Ctx2, c1: &mut msc::Ctx1| {
        *c2 = msc::set2_step(*c2, b).1;
        *c1 = msc::set1_step(*c1, b).1;
    };
    for o in ops {
        match o {
            Op::Bit(b) => {
                kinds[0] = true;
                match fm.add_bit(*b) {
                    Err(_) => {
                        if prefix_pending(c2, c1) { rej_pfx = true; }
                    }
                    Ok(Some(byte)) => feed(byte, &mut c2, &mut c1),
                    Ok(None) => {}
                }
            }
            Op::Word(w) => {
                kinds[1] = true;
                match frame::check_word(*w & 0x7FF) {
                    Err(_) => {
                        if prefix_pending(c2, c1) { rej_pfx = true; }
                    }
                    Ok(byte) => feed(byte, &mut c2, &mut c1),
                }
            }
            Op::Byte(b) => {
                kinds[2] = true;
                feed(*b, &mut c2, &mut c1);
            }
            Op::Event(..) => kinds[3] = true,
            Op::Clear => {
                if !fm.pending.is_empty() && prefix_pending(c2, c1) { clr_pfx = true; }
                fm.clear();
            }
            Op::SetCtrl(_) => {}
        }
    }
    (kinds.iter().filter(|k| **k).count() >= 2, rej_pfx, clr_pfx)
}

fn c18_random<D: Dec>(run: &mut Run, cases: u32) {
    let stats = RefCell::new(SeqStats::default());
    let outcome = run_prop(run.seed, if D::IS_SET2 { 0xC18_2 } else { 0xC18_1 }, cases, (proptest::prelude::any::<bool>(), gen::op_seq(40, false)), |(m, chunks), counting| {
        let start = if *m { HandleControl::MapLettersToUnicode } else { HandleControl::Ignore };
        let ops = gen::ops_flat(D::IS_SET2, chunks);
        let r = diverge::<D>(&ops, start);
        if counting {
            let mut st = stats.borrow_mut();
            st.cases += 1;
            st.ops += ops.len() as u64;
            let (mix, rej, clr) = classify::<D>(&ops);
            if mix { st.mixes_entry_points += 1; }
            if rej { st.rejected_frame_with_prefix_pending += 1; }
            if clr { st.clear_pending_with_prefix_pending += 1; }
            if mix && (rej || clr) { st.nontrivial.push(fp(&ops_text(&ops))); }
            if st.samples.len() < 2 && ops.len() > 40 {
                let t = ops_text(&ops);
                st.samples.push(json!({"layer":"random-op-sequence","set":D::NAME,"ops":t.chars().take(400).collect::<String>()}));
            }
        }
        match r {
            Ok(None) => Ok(()),
            Ok(Some((i, a, b))) => Err(format!("step {} wired={} keyboard={}", i, a, b)),
            Err(p) => Err(p),
        }
    });
    let st = stats.into_inner();
    run.eval(st.cases);
    for f in &st.nontrivial {
        run.nontrivial_fp(*f);
    }
    for s in st.samples {
        run.sample(|| s);
    }
    run.part(&format!("{}_random_op_sequences", D::NAME), json!({"cases": st.cases, "ops": st.ops, "classes": {"mixes_>=2_entry_points": st.mixes_entry_points, "rejected_frame_while_prefix_pending": st.rejected_frame_with_prefix_pending, "clear_with_pending_bits_while_prefix_pending": st.clear_pending_with_prefix_pending, "nontrivial": st.nontrivial.len()}}));
    if let Some(((m, chunks), _)) = outcome.failure {
        let start = if m { HandleControl::MapLettersToUnicode } else { HandleControl::Ignore };
        c18_eval::<D>(run, &gen::ops_flat(D::IS_SET2, &chunks), start);
    }
}

fn pump_op_patterns(set2: bool) -> Vec<Vec<Op>> {
    let fr = |b: u8| -> Vec<Op> { let w = frame::encode(b); (0..11).map(|i| Op::Bit((w >> i) & 1 != 0)).collect() };
    let a = if set2 { 0x1C } else { 0x1E };
    let mut v: Vec<Vec<Op>> = vec![
        vec![Op::Byte(a)],
        fr(a),
        vec![Op::Word(frame::encode(a))],
        vec![Op::Word(frame::encode(a) ^ 0x200), Op::Word(frame::encode(a))],
        { let mut x = fr(0xE0); x.extend(bits_ops(0b101, 3)); x.push(Op::Clear); x.extend(fr(if set2 { 0x75 } else { 0x48 })); x },
        vec![Op::Event(KeyCode::LShift, KeyState::Down), Op::Byte(0xE0), Op::Clear, Op::Event(KeyCode::A, KeyState::Down), Op::Byte(if set2 { 0x75 } else { 0x48 }), Op::Event(KeyCode::LShift, KeyState::Up)],
        vec![Op::Byte(0xFF), Op::Byte(a)],
        vec![Op::SetCtrl(HandleControl::Ignore), Op::Event(KeyCode::LControl, KeyState::Down), Op::Event(KeyCode::A, KeyState::Down), Op::SetCtrl(HandleControl::MapLettersToUnicode), Op::Event(KeyCode::A, KeyState::Down), Op::Event(KeyCode::LControl, KeyState::Up)],
        vec![Op::Bit(true)],
        vec![Op::Clear],
    ];
    for p in crate::checks::sc::pump_patterns(set2).into_iter().take(8) {
        v.push(p.into_iter().map(Op::Byte).collect());
    }
    v
}

/// Debug-fingerprint BFS over a curated alphabet of Keyboard operations (bits, clear, valid
/// and rejected words, prefix / key / unknown bytes, modifier and ordinary events, both mode
/// setters); every replayed history is compared with the wired stages incl. the probe suffix.
fn c18_explore<D: Dec>(run: &mut Run) {
    let (a, arrow) = if D::IS_SET2 { (0x1Cu8, 0x74u8) } else { (0x1Eu8, 0x4Du8) };
    let brk: u8 = if D::IS_SET2 { 0xF0 } else { 0x9E };
    let alphabet: Vec<Op> = vec![
        Op::Bit(false), Op::Bit(true), Op::Clear,
        Op::Word(frame::encode(0xE0)), Op::Word(frame::encode(brk)), Op::Word(frame::encode(a)), Op::Word(frame::encode(arrow)),
        Op::Word(frame::encode(0xE0) ^ 0x200), Op::Word(frame::encode(a) ^ 0x400), Op::Word(frame::encode(a) | 1),
        Op::Byte(0xE0), Op::Byte(brk), Op::Byte(0xE1), Op::Byte(a), Op::Byte(arrow), Op::Byte(0xFF),
        Op::Event(KeyCode::LShift, KeyState::Down), Op::Event(KeyCode::LShift, KeyState::Up), Op::Event(KeyCode::A, KeyState::Down),
        Op::SetCtrl(HandleControl::Ignore), Op::SetCtrl(HandleControl::MapLettersToUnicode),
    ];
    let cap = run.tier.pick(40_000usize, 400_000usize);
    let start = HandleControl::MapLettersToUnicode;
    let out = crate::explore::bfs(alphabet.len(), cap, 8, |h| {
        let ops: Vec<Op> = h.iter().map(|i| alphabet[*i as usize]).collect();
        let fp = guard(|| {
            let mut k = Keyboard::new(D::fresh(), EncLayout { id: 0 }, start);
            for o in &ops {
                let _ = apply_kbd(&mut k, o);
            }
            format!("{:?}", k)
        })?;
        let d = diverge::<D>(&ops, start)?;
        Ok((fp, d.is_none()))
    });
    run.eval(out.histories_run);
    run.nontrivial_enum(out.histories_run);
    for f in &out.failures {
        let ops: Vec<Op> = f.iter().map(|i| alphabet[*i as usize]).collect();
        c18_eval::<D>(run, &ops, start);
    }
    run.part(&format!("{}_state_exploration", D::NAME), json!({"alphabet": ops_text(&alphabet), "states_found": out.states, "state_cap": cap, "closed": out.closed, "detail": crate::explore::outcome_json(&out), "max_depth": out.max_depth, "histories_replayed": out.histories_run, "ops_replayed": out.steps, "failing(sampled)": out.failures.len()}));
}

/// Typematic repeat at the frame level through Keyboard: the same accepted frame k times
/// (as words or bit by bit), then every single-bit corruption of it, in every scancode context.
fn c18_repeat_then_perturb<D: Dec>(run: &mut Run) {
    let ctxs = contexts::<D>();
    let bytes: [u8; 3] = if D::IS_SET2 { [0x1C, 0x12, 0x75] } else { [0x1E, 0x2A, 0x48] };
    let mut n = 0u64;
    for c in &ctxs {
        for &b in &bytes {
            let w = frame::encode(b);
            for k in 1..=8usize {
                for via_bits in [false, true] {
                    for i in 0..11 {
                        let bad = w ^ (1 << i);
                        let mut ops: Vec<Op> = c.iter().map(|x| Op::Byte(*x)).collect();
                        for _ in 0..k {
                            if via_bits { ops.extend(bits_ops(w, 11)) } else { ops.push(Op::Word(w)) }
                        }
                        // a pending prefix makes a wrongly accepted frame visible in the scancode stage too
                        ops.extend(c.iter().map(|x| Op::Byte(*x)));
                        if via_bits { ops.extend(bits_ops(bad, 11)) } else { ops.push(Op::Word(bad)) }
                        c18_eval::<D>(run, &ops, HandleControl::MapLettersToUnicode);
                        n += 1;
                    }
                }
            }
        }
    }
    run.nontrivial_enum(n);
    run.part(&format!("{}_repeat_then_perturb", D::NAME), json!({"cases": n, "repeat_counts": "1..=8", "contexts": ctxs.len()}));
}

/// The alphabet of the two-phase grammar / workloads at Keyboard level.
fn deep_alphabet<D: Dec>() -> Vec<Op> {
    let (a, arrow, unk) = if D::IS_SET2 { (0x1Cu8, 0x75u8, 0x02u8) } else { (0x1Eu8, 0x48u8, 0x7Fu8) };
    let brk: u8 = if D::IS_SET2 { 0xF0 } else { 0x9E };
    vec![
        Op::Word(frame::encode(a)), Op::Word(frame::encode(arrow)), Op::Word(frame::encode(0xE0)), Op::Word(frame::encode(brk)), Op::Word(frame::encode(unk)),
        Op::Word(frame::encode(a) ^ 0x200), Op::Word(frame::encode(a) | 1), Op::Word(frame::encode(a) & !0x400),
        Op::Byte(a), Op::Byte(0xE0), Op::Byte(unk), Op::Byte(0xFF), Op::Byte(0x00),
        Op::Bit(true), Op::Bit(false), Op::Clear,
        Op::Event(KeyCode::A, KeyState::Down), Op::Event(KeyCode::LShift, KeyState::Down), Op::Event(KeyCode::LShift, KeyState::Up), Op::Event(KeyCode::CapsLock, KeyState::Down), Op::Event(KeyCode::NumpadLock, KeyState::Down),
    ]
}

/// Deep-history families at Keyboard level, compared with the wired stages at every step:
///  G4a  S A^i B^j T   setup S (nothing / a modifier held via events / a prefix pending),
///                     two phases of repetition over a 21-symbol alphabet with
///                     (i,j) in {(700,0),(700,5),(5,700),(700,700),(150,150)}, tails T
///  G4b  noisy line    6000 frames of typing traffic (incl. typematic repeats of lock keys) with
///                     every r-th frame corrupted and occasional clear(), events processed
pub fn deep_ops<D: Dec>() -> (Vec<Vec<Op>>, usize) {
    let alpha = deep_alphabet::<D>();
    let (arrow, e0) = if D::IS_SET2 { (0x75u8, 0xE0u8) } else { (0x48u8, 0xE0u8) };
    let setups: Vec<Vec<Op>> = vec![vec![], vec![Op::Event(KeyCode::LShift, KeyState::Down)], vec![Op::Event(KeyCode::RControl, KeyState::Down)], vec![Op::Byte(e0)], vec![Op::Word(frame::encode(if D::IS_SET2 { 0x12 } else { 0x2A }))]];
    let tails: Vec<Vec<Op>> = vec![vec![], vec![Op::Byte(e0), Op::Clear, Op::Byte(arrow)], vec![Op::Byte(e0), Op::Word(frame::encode(arrow) ^ 0x200), Op::Byte(arrow)], vec![Op::Event(KeyCode::CapsLock, KeyState::Down), Op::Event(KeyCode::CapsLock, KeyState::Down)]];
    let mut fam = Vec::new();
    for s0 in &setups {
        for a in &alpha {
            for b in &alpha {
                for (i, j) in [(700usize, 0usize), (700, 5), (5, 700), (700, 700), (150, 150)] {
                    if j == 0 && a != b { continue; }
                    for t in &tails {
                        let mut v = s0.clone();
                        v.extend(std::iter::repeat(*a).take(i));
                        v.extend(std::iter::repeat(*b).take(j));
                        v.extend(t.iter().copied());
                        fam.push(v);
                    }
                }
            }
        }
    }
    // burst cycles (A^a B^b)^40: e.g. four good frames, two bad frames, again and again
    for a in &alpha {
        for b in &alpha {
            if a == b { continue; }
            for (na, nb) in [(1usize, 1usize), (2, 1), (3, 1), (4, 2), (5, 1), (8, 3), (1, 2), (2, 2), (4, 1), (12, 2)] {
                let mut v = Vec::with_capacity((na + nb) * 40 + 4);
                for _ in 0..40 {
                    v.extend(std::iter::repeat(*a).take(na));
                    v.extend(std::iter::repeat(*b).take(nb));
                }
                v.extend(tails[1].iter().copied());
                fam.push(v);
            }
        }
    }
    let traffic: Vec<u8> = if D::IS_SET2 { vec![0x12, 0x1C, 0x1C, 0x1C, 0xF0, 0x1C, 0xE0, 0x75, 0xE0, 0xF0, 0x75, 0xF0, 0x12, 0x58, 0x58, 0xF0, 0x58, 0x77, 0x77, 0xF0, 0x77, 0x14, 0x21, 0xF0, 0x21, 0xF0, 0x14] } else { vec![0x2A, 0x1E, 0x1E, 0x1E, 0x9E, 0xE0, 0x48, 0xE0, 0xC8, 0xAA, 0x3A, 0x3A, 0xBA, 0x45, 0x45, 0xC5, 0x1D, 0x2E, 0xAE, 0x9D] };
    // two-scale periodic (A^p B^b)^6 for frame-level symbols: long good runs, short fault bursts
    for a in alpha.iter().take(8) {
        for b in alpha.iter().take(8) {
            if a == b { continue; }
            for p in [256usize, 512, 513, 1024] {
                for nb in [1usize, 2, 3] {
                    let mut v = Vec::new();
                    for _ in 0..6 {
                        v.extend(std::iter::repeat(*a).take(p));
                        v.extend(std::iter::repeat(*b).take(nb));
                    }
                    v.push(alpha[0]);
                    v.extend(tails[1].iter().copied());
                    fam.push(v);
                }
            }
        }
    }
    let g4a = fam.len();
    for r in [0usize, 100, 64, 33, 16, 10, 6, 3] {
        for via_bits in [false, true] {
            for clears in [false, true] {
                let mut v: Vec<Op> = Vec::new();
                for i in 0..6000usize {
                    let w = frame::encode(traffic[i % traffic.len()]);
                    let w = if r > 0 && i % r == 1 { w ^ (1 << (i % 11)) } else { w };
                    if clears && i % 97 == 50 {
                        v.extend(bits_ops(w, 1 + i % 10));
                        v.push(Op::Clear);
                    }
                    if via_bits { v.extend(bits_ops(w, 11)) } else { v.push(Op::Word(w)) }
                }
                fam.push(v);
            }
        }
    }
    (fam, g4a)
}

/// run an op sequence on the Keyboard and on the wired stages, *processing every decoded key
/// event* on both sides as a real driver would; first divergence index
fn diverge_driver<D: Dec>(ops: &[Op], start_mode: HandleControl) -> Result<Option<(usize, String, String)>, String> {
    guard(|| {
        let mut real = Keyboard::new(D::fresh(), EncLayout { id: 0 }, start_mode);
        let mut wired = Wired { ps2: Ps2Decoder::new(), sc: D::fresh(), ed: EventDecoder::new(EncLayout { id: 0 }, start_mode) };
        for (i, op) in ops.iter().enumerate() {
            let a = wired.apply(op);
            let b = apply_kbd(&mut real, op);
            if a != b {
                return Some((i, ret_str(&a), ret_str(&b)));
            }
            if let (Ret::Sc(Ok(Some(ea))), Ret::Sc(Ok(Some(eb)))) = (&a, &b) {
                let da = wired.ed.process_keyevent(ea.clone());
                let db = real.process_keyevent(eb.clone());
                if da != db {
                    return Some((i, format!("process({:?})={}", ea, ret_str(&Ret::Dk(da))), format!("process({:?})={}", eb, ret_str(&Ret::Dk(db)))));
                }
            }
        }
        None
    })
}

fn c18_deep<D: Dec>(run: &mut Run) {
    use rayon::prelude::*;
    let (fam, g4a) = deep_ops::<D>();
    let mode = HandleControl::MapLettersToUnicode;
    let bad: Vec<usize> = fam.par_iter().enumerate().filter_map(|(i, v)| {
        let plain = !matches!(diverge::<D>(v, mode), Ok(None));
        let driver = !matches!(diverge_driver::<D>(v, mode), Ok(None));
        if plain || driver { Some(i) } else { None }
    }).collect();
    run.eval(fam.len() as u64 * 2);
    run.nontrivial_enum(fam.len() as u64);
    for i in bad.iter().take(6) {
        let before = run.violations.len();
        c18_eval::<D>(run, &fam[*i], mode);
        if run.violations.len() == before {
            // only the driver variant (decoded events fed back) diverges
            if let Ok(Some((k, want, got))) = diverge_driver::<D>(&fam[*i], mode) {
                let shown = &fam[*i][..=k];
                run.violation(Violation {
                    sig: format!("kbd:{}:driver:[{}]:step={}:wired={}:keyboard={}", D::NAME, ops_text(&shown[shown.len().saturating_sub(12)..]), k, want.replace(' ', ""), got.replace(' ', "")),
                    what: format!("Keyboard<_, {}> driven like a real driver (every decoded key event passed to process_keyevent) diverges from the three wired stages at operation #{}: Keyboard gives {}, wired stages give {}; last operations: [{}]", D::NAME, k, got, want, ops_text(&shown[shown.len().saturating_sub(40)..])),
                    case: json!({"kind":"kbd_ops_driver","set":D::NAME,"start_mode":mode_name(mode),"ops":ops_json(shown),"text":ops_text(shown)}),
                });
            }
        }
    }
    run.total_violating_cases += bad.len().saturating_sub(6) as u64;
    run.part(&format!("{}_deep_history_families", D::NAME), json!({"S.A^i.B^j.T": g4a, "noisy_line_workloads(6000 frames)": fam.len() - g4a, "ops_total": fam.iter().map(|v| v.len() as u64).sum::<u64>(), "failing": bad.len()}));
}

fn c18_pumping<D: Dec>(run: &mut Run) {
    let mut n = 0u64;
    let pats = pump_op_patterns(D::IS_SET2);
    for pat in &pats {
        let reps = 70_000 / pat.len() + 1;
        let ops: Vec<Op> = pat.iter().copied().cycle().take(reps * pat.len()).collect();
        n += ops.len() as u64;
        c18_eval::<D>(run, &ops, HandleControl::MapLettersToUnicode);
        run.nontrivial_fp(fp(&("pump", D::NAME, ops_text(pat))));
    }
    run.part(&format!("{}_pumping", D::NAME), json!({"ops_fed": n, "patterns": pats.iter().map(|p| ops_text(p)).collect::<Vec<_>>()}));
}

pub fn c18(run: &mut Run) {
    run.rule = "Differential against three separately owned stages (Ps2Decoder, ScancodeSetN, EventDecoder) wired exactly as the property says; every return value is compared, and after each sequence both sides receive a probe suffix that fingerprints every stage behaviourally (press of A through an argument-encoding layout = modifiers + mode; byte 0x14/0x1D = a different event in every scancode context; two valid frames bit by bit = pending count and register contents). Exhaustive per-operation slices over the fed stage with the other stages in non-initial states: add_bit (2047 frame states x 2 bits x 6/3 scancode contexts x 8 modifier states), add_word (2048 words x contexts x 8 x 3 frame states), add_byte (256 x contexts x 64 frame states x 8), process_keyevent (124 x 3 x 64 frame states x contexts x 2), clear / set_ctrl_handling (2047 x contexts x 8 x 3). State exploration: BFS over a 21-symbol alphabet of operations with states named by Keyboard's Debug rendering. Repeat-then-perturb: the same accepted frame 1-8 times (typematic repeat, as words and bit by bit), then each single-bit corruption, in every scancode context. Deep-history families: two-phase repetition grammar S A^i B^j T over a 21-symbol alphabet with (i,j) up to (700,700), burst cycles (A^a B^b)^40 for all ordered pairs and ten (a,b) shapes, and noisy-line workloads of 6000 frames, also in 'driver' form (every decoded key event fed to process_keyevent on both sides). Pumping: typical operation patterns repeated for >= 70,000 operations. Random: interleavings of all six entry points with line noise (corrupted frames, partial frames + clear(), raw words), shrunk by proptest. Non-trivial slice = another stage in a non-initial state (distinct by construction); non-trivial sequence = mixes >= 2 entry points and contains a rejected frame or a clear() with pending bits while a scancode prefix is pending (distinct by op string).".into();
    run.assumptions = vec![
        "the three stage types are used as their own reference: this is the relation the property states; what each stage does alone is C01-C07/C04/C14's business".into(),
        "words with bits above bit 10 are excluded (outside add_word's documented precondition)".into(),
    ];
    c18_slices::<ScancodeSet2>(run);
    c18_slices::<ScancodeSet1>(run);
    c18_pumping::<ScancodeSet2>(run);
    c18_pumping::<ScancodeSet1>(run);
    c18_explore::<ScancodeSet2>(run);
    c18_explore::<ScancodeSet1>(run);
    c18_repeat_then_perturb::<ScancodeSet2>(run);
    c18_repeat_then_perturb::<ScancodeSet1>(run);
    c18_deep::<ScancodeSet2>(run);
    c18_deep::<ScancodeSet1>(run);
    run.exhaustive = true;
    let n = run.tier.pick(5_000u32, 500_000u32);
    c18_random::<ScancodeSet2>(run, n);
    c18_random::<ScancodeSet1>(run, n);
}

// ---------------------------------------------------------------------------------------
// C08
// ---------------------------------------------------------------------------------------
fn c08_panic(run: &mut Run, component: &str, input: String, msg: &str, case: Value) {
    run.violation(Violation {
        sig: format!("panic:{}:{}:{}", component, input.replace(' ', "."), panic_sig(msg)),
        what: format!("{} panics on {}: {}", component, input, msg),
        case,
    });
}

fn c08_graph<D: Dec>(run: &mut Run) {
    let g = Graph::<D>::extract_with_cap(crate::graph::state_cap(run.tier == crate::report::Tier::Thorough));
    let mut cells = 0u64;
    for s in 0..g.expanded() {
        for b in 0..=255u8 {
            cells += 1;
            if s != 0 {
                run.nontrivial_enum(1);
            }
            if let Step::Panic(p) = g.step(s, b) {
                let mut bytes = g.history(s);
                bytes.push(b);
                c08_panic(run, &format!("{}::advance_state", D::NAME), format!("bytes [{}]", hex(&bytes)), &p, json!({"kind":"c08_bytes","set":D::NAME,"bytes":bytes}));
            }
        }
    }
    run.eval(cells);
    if !g.closed {
        run.inconclusive.push(format!("{}: state cap reached", D::NAME));
    }
    run.part(&format!("{}_reachable_graph", D::NAME), json!({"reachable_states": g.states.len(), "closed": g.closed, "transitions": cells, "note": if D::IS_SET2 { "all six DecodeState values reachable" } else { "three states reachable: the unimplemented!() arm for the other DecodeState values is unreachable" }}));
    // hook-free: all streams of length <= 2 through Keyboard::add_byte
    let bad: Vec<Vec<u8>> = (0..=255u8)
        .into_par_iter()
        .flat_map_iter(|a| {
            let mut bad = Vec::new();
            for b in 0..=255u8 {
                let r = guard(|| {
                    let mut k = Keyboard::new(D::fresh(), Us104Key, HandleControl::Ignore);
                    let _ = k.add_byte(a);
                    let _ = k.add_byte(b);
                    let _ = k.add_byte(0x1C);
                });
                if r.is_err() {
                    bad.push(vec![a, b, 0x1C]);
                }
            }
            bad.into_iter()
        })
        .collect();
    run.eval(65536);
    run.nontrivial_enum(65536 - 256);
    for b in bad.iter().take(8) {
        c08_eval_bytes::<D>(run, b);
    }
}

fn c08_eval_bytes<D: Dec>(run: &mut Run, bytes: &[u8]) {
    run.eval(1);
    let r = guard(|| {
        let mut k = Keyboard::new(D::fresh(), Us104Key, HandleControl::Ignore);
        for b in bytes {
            let _ = k.add_byte(*b);
        }
    });
    if let Err(p) = r {
        c08_panic(run, &format!("Keyboard<_, {}>::add_byte", D::NAME), format!("bytes [{}]", hex(bytes)), &p, json!({"kind":"c08_bytes","set":D::NAME,"bytes":bytes}));
    }
}

fn c08_eval_ops<D: Dec>(run: &mut Run, layout: usize, ops: &[Op]) {
    run.eval(1);
    let r = guard(|| {
        let mut k = Keyboard::new(D::fresh(), any_layout(layout), HandleControl::MapLettersToUnicode);
        for (i, op) in ops.iter().enumerate() {
            let r = std::panic::catch_unwind(std::panic::AssertUnwindSafe(|| match op {
                Op::Bit(b) => { let _ = k.add_bit(*b); }
                Op::Word(w) => { let _ = k.add_word(*w); }
                Op::Byte(b) => { let _ = k.add_byte(*b); }
                Op::Event(key, s) => { let _ = k.process_keyevent(KeyEvent::new(*key, *s)); }
                Op::Clear => { let _ = k.clear(); }
                Op::SetCtrl(m) => { let _ = k.set_ctrl_handling(*m); }
            }));
            if r.is_err() {
                return Some(i);
            }
        }
        None
    });
    let case = |n: usize| json!({"kind":"c08_ops","set":D::NAME,"layout":LAYOUT_NAMES[layout],"ops":ops_json(&ops[..n]),"text":ops_text(&ops[..n])});
    match r {
        Ok(None) => {}
        Ok(Some(i)) => {
            // re-run to fetch the message through guard
            let msg = guard(|| {
                let mut k = Keyboard::new(D::fresh(), any_layout(layout), HandleControl::MapLettersToUnicode);
                for op in &ops[..=i] {
                    match op {
                        Op::Bit(b) => { let _ = k.add_bit(*b); }
                        Op::Word(w) => { let _ = k.add_word(*w); }
                        Op::Byte(b) => { let _ = k.add_byte(*b); }
                        Op::Event(key, s) => { let _ = k.process_keyevent(KeyEvent::new(*key, *s)); }
                        Op::Clear => { let _ = k.clear(); }
                        Op::SetCtrl(m) => { let _ = k.set_ctrl_handling(*m); }
                    }
                }
            })
            .err()
            .unwrap_or_else(|| "panic (not reproduced on re-run)".into());
            c08_panic(run, &format!("Keyboard<AnyLayout::{}, {}>", LAYOUT_NAMES[layout], D::NAME), format!("operation sequence [{}]", ops_text(&ops[..=i])), &msg, case(i + 1));
        }
        Err(p) => c08_panic(run, "Keyboard", format!("operation sequence [{}]", ops_text(ops)), &p, case(ops.len())),
    }
}

fn c08_random<D: Dec>(run: &mut Run, cases: u32) {
    let stats = RefCell::new((0u64, 0u64, Vec::<u64>::new(), 0u64, Vec::<Value>::new()));
    let outcome = run_prop(run.seed, if D::IS_SET2 { 0xC08_2 } else { 0xC08_1 }, cases, (0usize..N_LAYOUTS, gen::op_seq(40, true)), |(l, chunks), counting| {
        let ops = gen::ops_flat(D::IS_SET2, chunks);
        let mut probe = Run::probe("C08");
        c08_eval_ops::<D>(&mut probe, *l, &ops);
        if counting {
            let mut st = stats.borrow_mut();
            st.0 += 1;
            st.1 += ops.len() as u64;
            let wide = ops.iter().any(|o| matches!(o, Op::Word(w) if *w > 0x7FF));
            if wide { st.3 += 1; }
            if ops.len() > 5 { st.2.push(fp(&(l, ops_text(&ops)))); }
            if st.4.len() < 2 && ops.len() > 30 {
                st.4.push(json!({"layer":"random-api-ops","set":D::NAME,"layout":LAYOUT_NAMES[*l],"ops":ops_text(&ops).chars().take(300).collect::<String>()}));
            }
        }
        match probe.violations.keys().next() {
            None => Ok(()),
            Some(s) => Err(s.clone()),
        }
    });
    let st = stats.into_inner();
    run.eval(st.0);
    for f in &st.2 {
        run.nontrivial_fp(*f);
    }
    for s in st.4 {
        run.sample(|| s);
    }
    run.part(&format!("{}_random_api_sequences", D::NAME), json!({"cases": st.0, "ops": st.1, "with_word_above_11_bits": st.3}));
    if let Some(((l, chunks), _)) = outcome.failure {
        c08_eval_ops::<D>(run, l, &gen::ops_flat(D::IS_SET2, &chunks));
    }
}

pub fn c08(run: &mut Run) {
    run.rule = "Everything is built with overflow checks and debug assertions on and every call runs under catch_unwind; the oracle is 'the call returns'. Exhaustive: every byte in every reachable state of both scancode decoders (extracted graph; plus all 2-byte streams through Keyboard::add_byte, hook-free); every bit in every reachable frame state (2047 x 2) with clear() before/after; all 65,536 u16 words to Ps2Decoder::add_word and to Keyboard::add_word in every scancode context of both sets; every key event (124 x 3) in every one of the 1024 event-decoder states for each of the 10 layouts behind AnyLayout; 124 keys x 512 modifier records x 2 modes on 30 layout objects; the five Modifiers predicates on 512 records. Pumping: operation patterns repeated for >= 70,000 operations (thorough: 2^32 + 2 calls of each basic operation, for counters that only overflow late). Random: API operation sequences (bits, words incl. bits above bit 10, bytes, events, clear, set_ctrl_handling) on Keyboard<AnyLayout, Set1/Set2>. Non-trivial = input reaching a non-initial state of the component, a word with bits >= 11 set, or an undefined scancode; exhaustive cases are distinct by construction.".into();
    run.assumptions = vec!["a panic is the only failure mode looked for here (the crate is 100% safe Rust, no allocation, no recursion); what the calls return is the other properties' business".into()];
    c08_graph::<ScancodeSet2>(run);
    c08_graph::<ScancodeSet1>(run);

    // frame decoder: every reachable state x bit, clear anywhere
    let mut n = 0u64;
    for nb in 0..=10usize {
        for p in 0..(1u32 << nb) {
            for bit in [false, true] {
                for clear_at in [None, Some(0usize), Some(nb), Some(nb + 1)] {
                    n += 1;
                    let r = guard(|| {
                        let mut d = Ps2Decoder::new();
                        for i in 0..nb {
                            if clear_at == Some(i) { d.clear(); }
                            let _ = d.add_bit((p >> i) & 1 != 0);
                        }
                        if clear_at == Some(nb) { d.clear(); }
                        let _ = d.add_bit(bit);
                        if clear_at == Some(nb + 1) { d.clear(); }
                        for _ in 0..12 { let _ = d.add_bit(true); }
                    });
                    if let Err(msg) = r {
                        c08_panic(run, "Ps2Decoder::add_bit/clear", format!("prefix {:0width$b} (LSB first, {} bits) then bit {} (clear at {:?})", p, nb, bit as u8, clear_at, width = nb.max(1)), &msg, json!({"kind":"c08_frame","bits":nb,"prefix":p,"bit":bit}));
                    }
                }
            }
        }
    }
    run.eval(n);
    run.nontrivial_enum(n - 8);
    run.part("frame_states", json!({"cases": n}));

    // all u16 words
    let ctx2: Vec<Vec<u8>> = contexts::<ScancodeSet2>();
    let ctx1: Vec<Vec<u8>> = contexts::<ScancodeSet1>();
    let bad: Vec<(u16, String)> = (0..=u16::MAX)
        .into_par_iter()
        .filter_map(|w| {
            let r = guard(|| {
                let _ = Ps2Decoder::new().add_word(w);
                for c in &ctx2 {
                    let mut k = Keyboard::new(ScancodeSet2::new(), Us104Key, HandleControl::Ignore);
                    for b in c { let _ = k.add_byte(*b); }
                    let _ = k.add_word(w);
                }
                for c in &ctx1 {
                    let mut k = Keyboard::new(ScancodeSet1::new(), Us104Key, HandleControl::Ignore);
                    for b in c { let _ = k.add_byte(*b); }
                    let _ = k.add_word(w);
                }
            });
            r.err().map(|m| (w, m))
        })
        .collect();
    run.eval(65536 * 10);
    run.nontrivial_enum(65536 - 2048);
    for (w, m) in bad.iter().take(16) {
        c08_panic(run, "add_word", format!("word {:#06X}", w), m, json!({"kind":"c08_word","word":w}));
    }
    run.total_violating_cases += bad.len().saturating_sub(16) as u64;
    run.part("all_u16_words", json!({"words": 65536, "contexts": 10, "panicking_words": bad.len()}));
    run.sample(|| json!({"layer":"all-u16-words","example":"Keyboard<Us104Key,ScancodeSet2>: add_byte(E0); add_word(0xFFFF)","returned": format!("{:?}", guard(|| { let mut k = Keyboard::new(ScancodeSet2::new(), Us104Key, HandleControl::Ignore); let _ = k.add_byte(0xE0); k.add_word(0xFFFF) }))}));

    // event decoder: every event in every state, all 10 layouts behind AnyLayout
    let bad: Vec<(usize, u16, usize, String)> = (0..N_LAYOUTS * 1024)
        .into_par_iter()
        .flat_map_iter(|i| {
            let l = i / 1024;
            let bits = (i % 1024 / 2) as u16;
            let mode = MODES[i % 2];
            let mut bad = Vec::new();
            for (ki, &k) in ALL_KEYS.iter().enumerate() {
                for st in KEY_STATES {
                    let r = guard(|| {
                        let mut d = EventDecoder::new(any_layout(l), mode);
                        for (hk, hs) in mm::witness_history(bits) {
                            let _ = d.process_keyevent(KeyEvent::new(hk, hs));
                        }
                        let _ = d.process_keyevent(KeyEvent::new(k, st));
                    });
                    if let Err(m) = r {
                        if bad.len() < 2 { bad.push((l, bits, ki, m)); }
                    }
                }
            }
            bad.into_iter()
        })
        .collect();
    let nev = (N_LAYOUTS * 1024 * ALL_KEYS.len() * 3) as u64;
    run.eval(nev);
    run.nontrivial_enum(nev - (N_LAYOUTS * 2 * ALL_KEYS.len() * 3) as u64);
    for (l, bits, ki, m) in bad.iter().take(16) {
        c08_panic(run, &format!("EventDecoder<AnyLayout::{}>::process_keyevent", LAYOUT_NAMES[*l]), format!("key {:?} in modifier state {}", ALL_KEYS[*ki], mods_str(*bits)), m, json!({"kind":"c08_event","layout":LAYOUT_NAMES[*l],"mods":bits,"key":key_name(ALL_KEYS[*ki])}));
    }
    run.part("event_decoder_states", json!({"cases": nev, "panicking(sampled)": bad.len()}));

    // layouts: 30 objects x 124 x 512 x 2
    let bad: Vec<(usize, Form, usize, u16, usize, String)> = (0..N_LAYOUTS * 3)
        .into_par_iter()
        .flat_map_iter(|i| {
            let (l, f) = (i / 3, FORMS[i % 3]);
            let mut bad = Vec::new();
            for (ki, &k) in ALL_KEYS.iter().enumerate() {
                for (hi, h) in MODES.iter().enumerate() {
                    for bits in 0..N_MODS {
                        if let Err(m) = guard(|| call(l, f, k, &mods(bits), *h)) {
                            if bad.len() < 4 { bad.push((l, f, ki, bits, hi, m)); }
                        }
                    }
                }
            }
            bad.into_iter()
        })
        .collect();
    let nl = (30 * ALL_KEYS.len() * 1024) as u64;
    run.eval(nl);
    run.nontrivial_enum(nl);
    for (l, f, ki, bits, hi, m) in bad.iter().take(16) {
        c08_panic(run, &format!("{}({})::map_keycode", LAYOUT_NAMES[*l], form_name(*f)), format!("key {:?}, modifiers {}, mode {}", ALL_KEYS[*ki], mods_str(*bits), mode_name(MODES[*hi])), m, json!({"kind":"layout_cell","check":"C08","layout":LAYOUT_NAMES[*l],"form":form_name(*f),"key":key_name(ALL_KEYS[*ki]),"mods":bits,"mode":mode_name(MODES[*hi])}));
    }
    run.part("layout_objects", json!({"cases": nl, "panicking(sampled)": bad.len()}));
    for bits in 0..N_MODS {
        let m = mods(bits);
        if let Err(p) = guard(|| (m.is_shifted(), m.is_ctrl(), m.is_alt(), m.is_altgr(), m.is_caps())) {
            c08_panic(run, "Modifiers predicates", mods_str(bits), &p, json!({"kind":"predicate","mods":bits}));
        }
    }
    run.eval(512 * 5);
    run.exhaustive = true;

    // pumping: counters that only overflow after very many calls. Quick: every pattern for
    // >= 70,000 operations (u8 and u16 counters). Thorough: 2^32 + 2 calls of each basic
    // operation (u32 counters), one thread per operation.
    let mut n = 0u64;
    for set2 in [true, false] {
        for pat in pump_op_patterns(set2) {
            let reps = 70_000 / pat.len() + 1;
            let ops: Vec<Op> = pat.iter().copied().cycle().take(reps * pat.len()).collect();
            n += ops.len() as u64;
            if set2 { c08_eval_ops::<ScancodeSet2>(run, L_US, &ops) } else { c08_eval_ops::<ScancodeSet1>(run, L_DE, &ops) }
        }
    }
    run.part("pumping", json!({"ops_fed": n}));
    {
        // the deep-history families of C18 (two-phase repetition grammar, noisy-line workloads)
        // with the oracle disarmed: the calls must return
        let mut total = 0u64;
        for set2 in [true, false] {
            let (fam, _) = if set2 { deep_ops::<ScancodeSet2>() } else { deep_ops::<ScancodeSet1>() };
            let bad: Vec<usize> = fam.par_iter().enumerate().filter_map(|(i, v)| {
                let r = if set2 { diverge_driver::<ScancodeSet2>(v, HandleControl::MapLettersToUnicode) } else { diverge_driver::<ScancodeSet1>(v, HandleControl::MapLettersToUnicode) };
                if r.is_err() { Some(i) } else { None }
            }).collect();
            total += fam.len() as u64;
            for i in bad.iter().take(4) {
                if set2 { c08_eval_ops::<ScancodeSet2>(run, L_US, &fam[*i]) } else { c08_eval_ops::<ScancodeSet1>(run, L_US, &fam[*i]) }
            }
        }
        // byte-stream families through Keyboard::add_byte and the bit-level unit grammar
        for set2 in [true, false] {
            let (fam, _) = crate::checks::sc::deep_stream_families(set2, run.tier == crate::report::Tier::Thorough);
            let bad: Vec<usize> = fam.par_iter().enumerate().filter_map(|(i, v)| {
                let r = guard(|| {
                    if set2 { let mut k = Keyboard::new(ScancodeSet2::new(), Us104Key, HandleControl::Ignore); for b in v { let _ = k.add_byte(*b); } }
                    else { let mut k = Keyboard::new(ScancodeSet1::new(), Us104Key, HandleControl::Ignore); for b in v { let _ = k.add_byte(*b); } }
                });
                if r.is_err() { Some(i) } else { None }
            }).collect();
            total += fam.len() as u64;
            for i in bad.iter().take(4) {
                if set2 { c08_eval_bytes::<ScancodeSet2>(run, &fam[*i]) } else { c08_eval_bytes::<ScancodeSet1>(run, &fam[*i]) }
            }
        }
        let bitfam = crate::checks::frame::long_unit_grammar();
        let bad: Vec<usize> = bitfam.par_iter().enumerate().filter_map(|(i, v)| {
            let r = guard(|| {
                let mut d = Ps2Decoder::new();
                let mut k = Keyboard::new(ScancodeSet2::new(), Us104Key, HandleControl::Ignore);
                for o in v {
                    match o {
                        gen::BitOp::Bit(b) => { let _ = d.add_bit(*b); let _ = k.add_bit(*b); }
                        gen::BitOp::Clear => { d.clear(); k.clear(); }
                    }
                }
            });
            if r.is_err() { Some(i) } else { None }
        }).collect();
        total += bitfam.len() as u64;
        for i in bad.iter().take(4) {
            let ops: Vec<Op> = bitfam[*i].iter().map(|o| match o { gen::BitOp::Bit(b) => Op::Bit(*b), gen::BitOp::Clear => Op::Clear }).collect();
            c08_eval_ops::<ScancodeSet2>(run, L_US, &ops);
        }
        run.eval(total);
        run.nontrivial_enum(total);
        run.part("deep_history_families", json!({"sequences": total}));
    }
    if run.tier == crate::report::Tier::Thorough {
        const N: u64 = (1u64 << 32) + 2;
        let jobs: Vec<(&str, Box<dyn Fn() + Send + Sync>)> = vec![
            ("Ps2Decoder::add_bit(valid frames) x 2^32", Box::new(|| { let mut d = Ps2Decoder::new(); let w = frame::encode(0x1C); let mut i = 0u64; while i < N { let _ = d.add_bit((w >> (i % 11)) & 1 != 0); i += 1; } })),
            ("Keyboard<Set2>::add_byte(1C) x 2^32", Box::new(|| { let mut k = Keyboard::new(ScancodeSet2::new(), Us104Key, HandleControl::Ignore); let mut i = 0u64; while i < N { let _ = k.add_byte(0x1C); i += 1; } })),
            ("Keyboard<Set2>::add_byte(FF) x 2^32", Box::new(|| { let mut k = Keyboard::new(ScancodeSet2::new(), Us104Key, HandleControl::Ignore); let mut i = 0u64; while i < N { let _ = k.add_byte(0xFF); i += 1; } })),
            ("Keyboard<Set1>::add_byte(1E) x 2^32", Box::new(|| { let mut k = Keyboard::new(ScancodeSet1::new(), Us104Key, HandleControl::Ignore); let mut i = 0u64; while i < N { let _ = k.add_byte(0x1E); i += 1; } })),
            ("Keyboard<Set1>::add_byte(7F) x 2^32", Box::new(|| { let mut k = Keyboard::new(ScancodeSet1::new(), Us104Key, HandleControl::Ignore); let mut i = 0u64; while i < N { let _ = k.add_byte(0x7F); i += 1; } })),
            ("Keyboard::process_keyevent(A Down) x 2^32", Box::new(|| { let mut k = Keyboard::new(ScancodeSet2::new(), Us104Key, HandleControl::MapLettersToUnicode); let mut i = 0u64; while i < N { let _ = k.process_keyevent(KeyEvent::new(KeyCode::A, KeyState::Down)); i += 1; } })),
            ("Keyboard::process_keyevent(LShift Down/Up) x 2^32", Box::new(|| { let mut k = Keyboard::new(ScancodeSet2::new(), Us104Key, HandleControl::MapLettersToUnicode); let mut i = 0u64; while i < N { let _ = k.process_keyevent(KeyEvent::new(KeyCode::LShift, if i & 1 == 0 { KeyState::Down } else { KeyState::Up })); i += 1; } })),
            ("Keyboard<Set2>::add_word(valid 1C) x 2^32", Box::new(|| { let mut k = Keyboard::new(ScancodeSet2::new(), Us104Key, HandleControl::Ignore); let w = frame::encode(0x1C); let mut i = 0u64; while i < N { let _ = k.add_word(w); i += 1; } })),
            ("Keyboard<Set2>::add_bit(parity-error frames) x 2^32", Box::new(|| { let mut k = Keyboard::new(ScancodeSet2::new(), Us104Key, HandleControl::Ignore); let w = frame::encode(0x1C) ^ 0x200; let mut i = 0u64; while i < N { let _ = k.add_bit((w >> (i % 11)) & 1 != 0); i += 1; } })),
        ];
        let res: Vec<(String, Option<String>)> = jobs.par_iter().map(|(name, f)| (name.to_string(), guard(|| f()).err())).collect();
        for (name, e) in &res {
            if let Some(m) = e {
                c08_panic(run, "2^32-call pump", name.clone(), m, json!({"kind":"c08_pump","job":name}));
            }
        }
        run.eval(N * res.len() as u64);
        run.nontrivial_enum(res.len() as u64);
        run.part("pumping_2^32", json!({"jobs": res.iter().map(|(n, e)| json!({"job": n, "panicked": e.is_some()})).collect::<Vec<_>>(), "calls_per_job": N}));
    }

    // every key of the keyboard held at once (in several orders), then released; N keys held,
    // a modifier event, N keys released
    {
        let mut n = 0u64;
        let nk = ALL_KEYS.len();
        for rot in [0usize, 17, 59, 101] {
            for rev in [false, true] {
                let mut order: Vec<KeyCode> = (0..nk).map(|i| ALL_KEYS[(i + rot) % nk]).collect();
                if rev { order.reverse(); }
                let mut ops: Vec<Op> = order.iter().map(|k| Op::Event(*k, KeyState::Down)).collect();
                ops.extend(order.iter().map(|k| Op::Event(*k, KeyState::Down))); // typematic on everything
                ops.extend(order.iter().rev().map(|k| Op::Event(*k, KeyState::Up)));
                ops.extend(order.iter().map(|k| Op::Event(*k, KeyState::Up))); // spurious second release
                ops.push(Op::Event(KeyCode::A, KeyState::Down));
                c08_eval_ops::<ScancodeSet2>(run, (rot % N_LAYOUTS) as usize, &ops);
                n += 1;
            }
        }
        run.nontrivial_enum(n);
        run.part("all_keys_held_at_once", json!({"sequences": n, "keys": nk}));
    }

    // random event histories (typematic repeats, many keys held at once) on every layout
    {
        let cases = run.tier.pick(4_000u32, 300_000u32);
        let stats = RefCell::new((0u64, 0u64, Vec::<u64>::new()));
        let to_ops = |evops: &Vec<gen::EvOp>| -> Vec<Op> {
            evops.iter().flat_map(gen::ev_op_flat).filter_map(|f| match f { gen::FlatEv::Key(k, s) => Some(Op::Event(k, s)), gen::FlatEv::SetMode(m) => Some(Op::SetCtrl(m)), _ => None }).collect()
        };
        let outcome = run_prop(run.seed, 0xC08_E, cases, (0usize..N_LAYOUTS, gen::ev_history(250, 1)), |(l, evops), counting| {
            let ops = to_ops(evops);
            let mut probe = Run::probe("C08");
            c08_eval_ops::<ScancodeSet2>(&mut probe, *l, &ops);
            if counting {
                let mut st = stats.borrow_mut();
                st.0 += 1;
                st.1 += ops.len() as u64;
                // held-key census per the history: non-trivial if >= 6 keys are down at once
                let mut held = std::collections::BTreeSet::new();
                let mut maxheld = 0;
                for o in &ops {
                    if let Op::Event(k, s) = o {
                        match s { KeyState::Down => { held.insert(key_idx(*k)); } KeyState::Up => { held.remove(&key_idx(*k)); } _ => {} }
                        maxheld = maxheld.max(held.len());
                    }
                }
                if maxheld >= 6 { st.2.push(fp(&(l, ops_text(&ops)))); }
            }
            match probe.violations.keys().next() { None => Ok(()), Some(s) => Err(s.clone()) }
        });
        let st = stats.into_inner();
        run.eval(st.0);
        for f in &st.2 { run.nontrivial_fp(*f); }
        run.part("random_event_histories", json!({"cases": st.0, "events": st.1, "with_>=6_keys_held_at_once": st.2.len()}));
        if let Some(((l, evops), _)) = outcome.failure {
            c08_eval_ops::<ScancodeSet2>(run, l, &to_ops(&evops));
        }
    }

    let n = run.tier.pick(5_000u32, 300_000u32);
    c08_random::<ScancodeSet2>(run, n);
    c08_random::<ScancodeSet1>(run, n);
}

// ---------------------------------------------------------------------------------------
// replay
// ---------------------------------------------------------------------------------------
pub fn replay(run: &mut Run, case: &Value) -> bool {
    let set2 = case["set"].as_str() != Some("set1");
    let start = mode_by_name(case["start_mode"].as_str().unwrap_or("Map")).unwrap_or(HandleControl::MapLettersToUnicode);
    match case["kind"].as_str().unwrap_or("") {
        "kbd_ops" => {
            let ops = ops_from_json(&case["ops"]);
            if set2 { c18_eval::<ScancodeSet2>(run, &ops, start) } else { c18_eval::<ScancodeSet1>(run, &ops, start) }
        }
        "kbd_ops_driver" => {
            let ops = ops_from_json(&case["ops"]);
            run.eval(1);
            let r = if set2 { diverge_driver::<ScancodeSet2>(&ops, start) } else { diverge_driver::<ScancodeSet1>(&ops, start) };
            if let Ok(Some((k, want, got))) = r {
                run.violation(Violation { sig: format!("kbd:driver:step={}:wired={}:keyboard={}", k, want.replace(' ', ""), got.replace(' ', "")), what: format!("Keyboard diverges from the wired stages at operation #{}: {} vs {}", k, got, want), case: case.clone() });
            } else if let Err(p) = r {
                run.violation(Violation { sig: format!("kbd:driver:{}", panic_sig(&p)), what: format!("panic: {}", p), case: case.clone() });
            }
        }
        "c08_ops" => {
            let ops = ops_from_json(&case["ops"]);
            let l = layout_by_name(case["layout"].as_str().unwrap_or("")).unwrap_or(0);
            if set2 { c08_eval_ops::<ScancodeSet2>(run, l, &ops) } else { c08_eval_ops::<ScancodeSet1>(run, l, &ops) }
        }
        "c08_bytes" => {
            let b: Vec<u8> = case["bytes"].as_array().map(|a| a.iter().filter_map(|x| x.as_u64()).map(|x| x as u8).collect()).unwrap_or_default();
            if set2 { c08_eval_bytes::<ScancodeSet2>(run, &b) } else { c08_eval_bytes::<ScancodeSet1>(run, &b) }
        }
        "c08_word" => {
            let w = case["word"].as_u64().unwrap_or(0) as u16;
            c08_eval_ops::<ScancodeSet2>(run, 0, &[Op::Word(w)]);
            c08_eval_ops::<ScancodeSet1>(run, 0, &[Op::Word(w)]);
            run.eval(1);
            if let Err(p) = guard(|| Ps2Decoder::new().add_word(w)) {
                c08_panic(run, "Ps2Decoder::add_word", format!("word {:#06X}", w), &p, case.clone());
            }
        }
        "c08_frame" => {
            let nb = case["bits"].as_u64().unwrap_or(0) as usize;
            let p = case["prefix"].as_u64().unwrap_or(0) as u16;
            let mut ops: Vec<Op> = bits_ops(p, nb);
            ops.push(Op::Bit(case["bit"].as_bool().unwrap_or(false)));
            ops.extend((0..12).map(|_| Op::Bit(true)));
            c08_eval_ops::<ScancodeSet2>(run, 0, &ops);
        }
        "c08_event" => {
            let l = layout_by_name(case["layout"].as_str().unwrap_or("")).unwrap_or(0);
            let bits = case["mods"].as_u64().unwrap_or(0) as u16;
            let mut ops = mod_setup(bits);
            if let Some(k) = key_by_name(case["key"].as_str().unwrap_or("")) {
                for st in KEY_STATES { ops.push(Op::Event(k, st)); }
            }
            c08_eval_ops::<ScancodeSet2>(run, l, &ops);
        }
        _ => return false,
    }
    true
}

#[allow(dead_code)]
fn _unused() {
    let _ = encode_args;
}
