//! Scancode-decoder checks: C01, C02 (table + automaton), C07 (resynchronisation),
//! C13 (i8042 agreement), C19 (pairing / injectivity).
use crate::gen;
use crate::graph::{run_bytes, Dec, Graph, ScOut, Step};
use crate::model::sc::{self, Ctx1, Ctx2, Out, Pfx};
use crate::prop::run_prop;
use crate::report::{fp, guard, panic_sig, Run, Tier, Violation};
use crate::universe::*;
use rayon::prelude::*;
use serde_json::{json, Value};
use std::cell::RefCell;
use std::collections::{BTreeMap, BTreeSet, HashMap, VecDeque};


// ---------------------------------------------------------------------------------------
// Reference-model abstraction over the two sets
// ---------------------------------------------------------------------------------------
pub trait RefModel {
    type Ctx: Copy + Eq + Ord + std::hash::Hash + std::fmt::Debug + Send + Sync;
    type D: Dec;
    fn start() -> Self::Ctx;
    fn all() -> Vec<Self::Ctx>;
    fn step(c: Self::Ctx, b: u8) -> (Out, Self::Ctx);
    fn accepts(c: Self::Ctx, b: u8, r: &ScOut) -> bool;
    fn name(c: Self::Ctx) -> &'static str;
    fn history(c: Self::Ctx) -> &'static [u8];
}
pub struct M1;
pub struct M2;
impl RefModel for M2 {
    type Ctx = Ctx2;
    type D = ScancodeSet2;
    fn start() -> Ctx2 {
        Ctx2::Start
    }
    fn all() -> Vec<Ctx2> {
        sc::CTX2S.to_vec()
    }
    fn step(c: Ctx2, b: u8) -> (Out, Ctx2) {
        sc::set2_step(c, b)
    }
    fn accepts(c: Ctx2, b: u8, r: &ScOut) -> bool {
        sc::set2_accepts(c, b, r)
    }
    fn name(c: Ctx2) -> &'static str {
        c.name()
    }
    fn history(c: Ctx2) -> &'static [u8] {
        c.history()
    }
}
impl RefModel for M1 {
    type Ctx = Ctx1;
    type D = ScancodeSet1;
    fn start() -> Ctx1 {
        Ctx1::Start
    }
    fn all() -> Vec<Ctx1> {
        sc::CTX1S.to_vec()
    }
    fn step(c: Ctx1, b: u8) -> (Out, Ctx1) {
        sc::set1_step(c, b)
    }
    fn accepts(c: Ctx1, b: u8, r: &ScOut) -> bool {
        sc::set1_step(c, b).0.matches(r)
    }
    fn name(c: Ctx1) -> &'static str {
        c.name()
    }
    fn history(c: Ctx1) -> &'static [u8] {
        c.history()
    }
}

fn cell_sig<M: RefModel>(c: M::Ctx, b: u8, want: &Out, got: &str) -> String {
    format!(
        "{}:ctx={}:byte={:02X}:want={}:got={}",
        <M::D as Dec>::NAME,
        M::name(c),
        b,
        want.text(),
        got
    )
}

fn stream_case<D: Dec>(bytes: &[u8]) -> Value {
    json!({"kind": "sc_stream", "set": D::NAME, "bytes": bytes, "hex": hex(bytes)})
}

/// Result of walking a byte stream through the real decoder and the model in lock-step.
pub struct Mismatch {
    pub at: usize,
    pub sig: String,
    pub what: String,
}

/// Compare real outputs with the model step by step. `tolerate(sig)` lets the caller skip
/// listed known findings (counted). Returns the first non-tolerated mismatch.
fn walk_model<M: RefModel>(
    bytes: &[u8],
    outs: &[ScOut],
    mut tolerate: impl FnMut(&str) -> bool,
) -> Option<Mismatch> {
    let mut c = M::start();
    for (i, (b, o)) in bytes.iter().zip(outs.iter()).enumerate() {
        let (want, next) = M::step(c, *b);
        if !M::accepts(c, *b, o) {
            let sig = cell_sig::<M>(c, *b, &want, &sc_out_str(o));
            if !tolerate(&sig) {
                return Some(Mismatch {
                    at: i,
                    what: format!(
                        "{} decoder, stream [{}]: byte {:02X} in context {} gives {}, the table/automaton require {}",
                        <M::D as Dec>::NAME,
                        hex(&bytes[..=i]),
                        b,
                        M::name(c),
                        sc_out_str(o),
                        want.text()
                    ),
                    sig,
                });
            }
        }
        c = next;
    }
    None
}

/// Feed bytes to a fresh `Keyboard` through add_byte (observe-at point 2 of C01/C02).
fn run_bytes_kbd<D: Dec>(bytes: &[u8]) -> Result<Vec<ScOut>, String> {
    guard(|| {
        let mut k = Keyboard::new(D::fresh(), Us104Key, HandleControl::Ignore);
        bytes.iter().map(|b| k.add_byte(*b)).collect()
    })
}

/// Replay / single-case evaluation shared by C01 and C02: stream through the decoder and
/// through Keyboard::add_byte, both against the model.
pub fn eval_stream<M: RefModel>(run: &mut Run, bytes: &[u8]) {
    for (path, res) in [
        ("ScancodeSet::advance_state", run_bytes::<M::D>(bytes)),
        ("Keyboard::add_byte", run_bytes_kbd::<M::D>(bytes)),
    ] {
        run.eval(1);
        match res {
            Err(p) => {
                run.violation(Violation {
                    sig: format!("{}:stream:{}", <M::D as Dec>::NAME, panic_sig(&p)),
                    what: format!("{} panics on stream [{}]: {}", path, hex(bytes), p),
                    case: stream_case::<M::D>(bytes),
                });
            }
            Ok(outs) => {
                let mut tolerated = 0u64;
                let known: Vec<String> = Vec::new();
                let _ = known;
                let r = {
                    let runref: &Run = run;
                    walk_model::<M>(bytes, &outs, |s| {
                        if runref.is_known(s) {
                            tolerated += 1;
                            true
                        } else {
                            false
                        }
                    })
                };
                run.tolerated_known += tolerated;
                if let Some(m) = r {
                    run.violation(Violation {
                        sig: m.sig,
                        what: format!("{} (via {})", m.what, path),
                        case: stream_case::<M::D>(&bytes[..=m.at]),
                    });
                }
            }
        }
    }
}

// ---------------------------------------------------------------------------------------
// C01 / C02
// ---------------------------------------------------------------------------------------
pub fn check_decode<M: RefModel>(run: &mut Run) {
    let set = <M::D as Dec>::NAME;
    run.rule = format!(
        "Exhaustive: the reachable graph of the real {set} decoder (BFS over cloned states, 256 bytes per state) is walked in product with the reference automaton written from the property statement + README conversion table; every reachable (impl state, model context, byte) cell is compared, each cell being a real execution new(); feed(witness history); feed(byte). The same (context, byte) cells are repeated through Keyboard::add_byte. Deep-history families: key held for 700 repeats then 1-8 copies of any byte then the key again; key + status byte + 2500 repeats; every ordered pair of complete cells repeated 24 times; wrap probes (error cell, 254-258 event-producing fillers, every byte). Pumping: every byte value repeated 700 times and typical sequences (typematic key, tap, shifted key, unknown codes, Pause, PrintScreen, status bytes) repeated for >= 70,000 bytes, against the model at every step. Random: structured byte streams (well-formed keys, typematic repeats, error bursts, undefined codes, prefixes in code position, raw bytes, status bytes) compared step by step with the model, shrunk by proptest. Non-trivial cell = taken from a non-initial context or yielding a key event (distinct = distinct (context, byte)); non-trivial stream = contains a multi-byte sequence and an error (distinct = distinct byte string)."
    );
    run.assumptions = vec![
        "advance_state is a deterministic function of (decoder state, byte): safe Rust, no statics/interior mutability (cross-checked by the hook-free random layer)".into(),
        "derive(Clone, PartialEq) of the verif-hooks feature captures the whole decoder state; PartialEq is only used to merge states (a finer partition is still sound)".into(),
        "reference table = README conversion table with its two self-contradictory cells resolved by the IBM/Microsoft specification (NumpadEnter Set2 = E0 5A, Apps Set1 = E0 5D)".into(),
    ];

    // ---- (a) graph x model product -----------------------------------------------------
    let g = Graph::<M::D>::extract_with_cap(crate::graph::state_cap(run.tier == Tier::Thorough));
    if !g.closed {
        run.inconclusive.push(format!(
            "{set}: decoder has more than {} distinguishable states; the graph layers cover only the part explored (BFS order), the black-box layers are unaffected",
            g.cap
        ));
    }
    // model transition table, computed once
    let ctxs = M::all();
    let cidx = |c: M::Ctx| ctxs.iter().position(|x| *x == c).unwrap();
    let mtab: Vec<Vec<(Out, usize)>> = ctxs.iter().map(|c| (0..=255u8).map(|b| { let (o, n) = M::step(*c, b); (o, cidx(n)) }).collect()).collect();
    let nexp = g.expanded();
    let mut seen = vec![false; nexp * ctxs.len()];
    let mut q: VecDeque<(usize, usize)> = VecDeque::new();
    let mut pairs = 0u64;
    let mut cells = 0u64;
    let mut events = 0u64;
    let mut errors = 0u64;
    let mut nones = 0u64;
    let mut nt_seen = vec![false; ctxs.len() * 256];
    let start_c = cidx(M::start());
    if nexp > 0 {
        seen[start_c] = true;
        q.push_back((0, start_c));
    }
    while let Some((s, ci)) = q.pop_front() {
        pairs += 1;
        let c = ctxs[ci];
        for b in 0..=255u8 {
            cells += 1;
            let (want, cnext) = mtab[ci][b as usize];
            if (ci != start_c || matches!(want, Out::Ev(..))) && !nt_seen[ci * 256 + b as usize] {
                nt_seen[ci * 256 + b as usize] = true;
                run.nontrivial_fp(fp(&("cell", M::name(c), b)));
            }
            match g.step(s, b) {
                Step::Panic(p) => {
                    let hist = g.history(s);
                    let mut bytes = hist.clone();
                    bytes.push(b);
                    run.violation(Violation {
                        sig: cell_sig::<M>(c, b, &want, &panic_sig(&p)),
                        what: format!("{set}: byte {:02X} after [{}] panics: {}", b, hex(&hist), p),
                        case: stream_case::<M::D>(&bytes),
                    });
                }
                Step::Ret(o, snext) => {
                    match o {
                        Ok(None) => nones += 1,
                        Ok(Some(_)) => events += 1,
                        Err(_) => errors += 1,
                    }
                    if cells % 97 == 0 && run.wants_sample() {
                        let hist = g.history(s);
                        let o2 = o.clone();
                        run.sample(|| {
                            json!({"layer":"graph-product","set":set,"history":hex(&hist),"byte":format!("{:02X}",b),
                                   "model_context":M::name(c),"expected":want.text(),"observed":sc_out_str(&o2)})
                        });
                    }
                    let ok = M::accepts(c, b, &o);
                    let mut follow = ok;
                    if !ok {
                        let sig = cell_sig::<M>(c, b, &want, &sc_out_str(&o));
                        if run.is_known(&sig) {
                            // listed finding: tolerated; model and implementation are both
                            // back in their initial state after it (the walk continues from
                            // (snext, cnext) and would show otherwise)
                            follow = true;
                        }
                        if !run.violations.contains_key(&sig) {
                            let hist = g.history(s);
                            let mut bytes = hist.clone();
                            bytes.push(b);
                            run.violation(Violation {
                                sig,
                                what: format!(
                                    "{set} decoder: after [{}] (context {}), byte {:02X} gives {}; the table/automaton require {}",
                                    hex(&hist), M::name(c), b, sc_out_str(&o), want.text()
                                ),
                                case: stream_case::<M::D>(&bytes),
                            });
                        } else {
                            run.total_violating_cases += 1;
                        }
                    }
                    if follow && snext < nexp && !seen[snext * ctxs.len() + cnext] {
                        seen[snext * ctxs.len() + cnext] = true;
                        q.push_back((snext, cnext));
                    }
                }
            }
        }
    }
    run.eval(cells);
    run.part(
        "graph_product",
        json!({"impl_states": g.states.len(), "impl_states_expanded": nexp, "closed": g.closed, "state_cap": g.cap, "product_pairs": pairs,
               "cells": cells, "event_outputs": events, "error_outputs": errors, "none_outputs": nones}),
    );

    // ---- (a') the graph did not close (a wide counter or cache makes every state new):
    //      fingerprint-guided product walk with counter-like Debug tokens masked ------------
    if !g.closed {
        guided_walk::<M>(run, &g, &mtab, &ctxs, start_c);
    }

    // ---- derived: every decodable key by its documented make and break sequence ----------
    let mut keys_checked = 0;
    for (k, s1, s2) in sc::TABLE.iter() {
        let enc = if <M::D as Dec>::IS_SET2 { *s2 } else { *s1 };
        if enc.is_none() {
            continue;
        }
        for st in [KeyState::Down, KeyState::Up, KeyState::SingleShot] {
            let bytes = if <M::D as Dec>::IS_SET2 { sc::set2_encode(*k, st) } else { sc::set1_encode(*k, st) };
            let Some(bytes) = bytes else { continue };
            keys_checked += 1;
            eval_stream::<M>(run, &bytes);
            run.nontrivial_fp(fp(&("key", key_name(*k), state_name(st))));
        }
    }
    run.part("documented_sequences", json!({"sequences_checked": keys_checked}));

    // ---- (b) the same cells through Keyboard::add_byte (hook-free) -------------------------
    let mut kcells = 0u64;
    for c in M::all() {
        for b in 0..=255u8 {
            kcells += 1;
            let mut bytes = M::history(c).to_vec();
            bytes.push(b);
            eval_stream::<M>(run, &bytes);
        }
    }
    run.part("keyboard_add_byte_cells", json!({"cells": kcells}));
    run.exhaustive = g.closed;

    // ---- (b') pumping: the same input over and over (hidden counters, repeat detection,
    //      saturating statistics): every byte 700 times; typical patterns beyond 2^16 steps ----
    let mut pumped = 0u64;
    for b in 0..=255u8 {
        eval_stream::<M>(run, &vec![b; 700]);
        pumped += 700;
    }
    for pat in pump_patterns(<M::D as Dec>::IS_SET2) {
        let reps = 70_000 / pat.len() + 1;
        let bytes: Vec<u8> = pat.iter().copied().cycle().take(reps * pat.len()).collect();
        pumped += bytes.len() as u64;
        eval_stream::<M>(run, &bytes);
        run.nontrivial_fp(fp(&("pump", <M::D as Dec>::NAME, &pat)));
    }
    run.part("pumping", json!({"bytes_fed": pumped, "single_byte_repeats": 700, "pattern_steps": ">= 70000 each", "patterns": pump_patterns(<M::D as Dec>::IS_SET2).iter().map(|p| hex(p)).collect::<Vec<_>>()}));

    // ---- (b'') repetition grammar, wrap probes, all ordered cell pairs -----------------------
    deep_streams::<M>(run, &mtab, &ctxs, start_c);

    // ---- (c) random structured streams -----------------------------------------------------
    let n = run.tier.pick(20_000u32, 2_000_000u32);
    random_streams::<M>(run, n);
}

/// The byte-stream families G1a, G1b, G1d, G1e (see deep_streams); sizes returned per family.
pub fn deep_stream_families(set2: bool, thorough: bool) -> (Vec<Vec<u8>>, (usize, usize, usize, usize)) {
    let enc = |k: KeyCode, st: KeyState| -> Vec<u8> { if set2 { sc::set2_encode(k, st) } else { sc::set1_encode(k, st) }.unwrap_or_default() };
    let keys = [KeyCode::A, KeyCode::LShift, KeyCode::ArrowUp, KeyCode::Numpad8, KeyCode::RControl, KeyCode::Return];
    let mut fam: Vec<Vec<u8>> = Vec::new();
    // G1a
    for k in keys {
        let mk = enc(k, KeyState::Down);
        let held: Vec<u8> = mk.iter().copied().cycle().take(mk.len() * 700).collect();
        let tail: Vec<u8> = [mk.clone(), enc(k, KeyState::Up), enc(KeyCode::Q, KeyState::Down), mk.clone()].concat();
        for b in 0..=255u8 {
            for j in [1usize, 2, 3, 5, 8] {
                let mut v = held.clone();
                v.extend(std::iter::repeat(b).take(j));
                v.extend(&tail);
                fam.push(v);
            }
        }
        for pfx in [0xE0u8, 0xE1] {
            for c in [0x00u8, 0x02, 0x7F, 0xFF] {
                for j in [1usize, 3, 8] {
                    let mut v = held.clone();
                    for _ in 0..j { v.push(pfx); v.push(c); }
                    v.extend(&tail);
                    fam.push(v);
                }
            }
        }
    }
    let g1a = fam.len();
    // G1b
    for k in keys {
        let mk = enc(k, KeyState::Down);
        for sp in [0x00u8, 0xFF, 0xFA, 0xAA, 0xEE, 0xFE, 0xFC, 0x7F] {
            let mut v = mk.clone();
            v.push(sp);
            for _ in 0..2500 { v.extend(&mk); }
            v.extend(enc(k, KeyState::Up));
            v.extend(&mk);
            fam.push(v);
        }
    }
    let g1b = fam.len() - g1a;
    // G1d
    let ns: Vec<usize> = if thorough { vec![254, 255, 256, 257, 258, 65534, 65535, 65536, 65537, 65538] } else { vec![254, 255, 256, 257, 258] };
    let xs: Vec<Vec<u8>> = vec![vec![0xE0, 0x00], vec![0xE0, 0xFF], vec![0xE1, 0x00], vec![0xFF], vec![0x00], vec![0xE0, 0x02], vec![0xE1, 0x77], vec![0xE0], vec![0xE1]];
    let fills: Vec<Vec<u8>> = vec![enc(KeyCode::A, KeyState::Down), [enc(KeyCode::A, KeyState::Down), enc(KeyCode::A, KeyState::Up)].concat()];
    for x in &xs {
        for f in &fills {
            for &n in &ns {
                let mut base = x.clone();
                for _ in 0..n { base.extend(f); }
                for p in (0..=255u8).step_by(if n > 1000 { 16 } else { 1 }) {
                    let mut v = base.clone();
                    v.push(p);
                    v.extend(enc(KeyCode::Q, KeyState::Down));
                    fam.push(v);
                }
            }
        }
    }
    let g1d = fam.len() - g1a - g1b;
    // G1e: two-scale periodic traffic (A^p B)^m: a held key with a stray byte every p repeats
    let strays: Vec<Vec<u8>> = vec![vec![0x00], vec![0xFF], vec![0xFA], vec![0xAA], vec![0xEE], vec![0xFE], vec![0x02], vec![0x7F], vec![0xE0, 0x00], vec![0xE0, 0x02], vec![0xE1, 0x00], vec![0xF3]];
    for k in keys {
        let mk = enc(k, KeyState::Down);
        for st in &strays {
            for p in [1usize, 2, 3, 8, 16, 64, 255, 256, 257, 300, 512, 1024] {
                let periods = (6000 / (p + 1)).clamp(5, 64);
                let mut v = Vec::new();
                for _ in 0..periods {
                    for _ in 0..p { v.extend(&mk); }
                    v.extend(st);
                }
                for _ in 0..p.min(300) { v.extend(&mk); }
                v.extend(enc(k, KeyState::Up));
                v.extend(enc(KeyCode::Q, KeyState::Down));
                fam.push(v);
            }
        }
    }
    // G1f: long typing sessions (taps over K distinct keys), in this set's encoding and in the
    // OTHER set's encoding (a mis-configured controller delivers the wrong set for minutes)
    let typed: Vec<KeyCode> = sc::TABLE.iter().filter(|(_, s1, s2)| s1.is_some() && s2.is_some()).map(|(k, _, _)| *k).collect();
    for own in [true, false] {
        let e2 = |k: KeyCode, st: KeyState| -> Vec<u8> { if set2 == own { sc::set2_encode(k, st) } else { sc::set1_encode(k, st) }.unwrap_or_default() };
        for kk in [1usize, 5, 16, 40, 100] {
            for off in [0usize, 15] {
                let mut v = Vec::new();
                for i in 0..3000usize {
                    let k = typed[(off + i % kk) % typed.len()];
                    v.extend(e2(k, KeyState::Down));
                    v.extend(e2(k, KeyState::Up));
                }
                // tails: the last key again twice (typematic after taps), a key and an extended key,
                // an extended make followed by the break of its non-extended twin, doubled prefixes,
                // protocol bytes, a byte that belongs to the other set
                let last = typed[(off + 2999 % kk) % typed.len()];
                v.extend(e2(last, KeyState::Down));
                v.extend(e2(last, KeyState::Down));
                v.extend(e2(last, KeyState::Up));
                v.extend(enc(KeyCode::A, KeyState::Down));
                v.extend(enc(KeyCode::A, KeyState::Up));
                v.extend(enc(KeyCode::ArrowUp, KeyState::Down));
                v.extend(enc(KeyCode::Numpad8, KeyState::Up));
                v.extend(enc(KeyCode::ArrowUp, KeyState::Up));
                v.extend([0xE0, 0xE0]);
                v.extend(enc(KeyCode::Numpad8, KeyState::Down));
                v.extend([0xFA, 0x00, 0xFF, 0xEE, 0xFE]);
                v.extend(enc(KeyCode::Q, KeyState::Down));
                v.push(if set2 { 0x9C } else { 0xF0 });
                fam.push(v);
            }
        }
    }
    // G1f': typing with 1-3 modifiers held, every key different from the previous one
    for mods in [vec![KeyCode::LShift], vec![KeyCode::LControl, KeyCode::LAlt], vec![KeyCode::RShift, KeyCode::RControl, KeyCode::RAltGr]] {
        for kk in [2usize, 3, 7, 30] {
            let mut v = Vec::new();
            for m in &mods { v.extend(enc(*m, KeyState::Down)); }
            for i in 0..1500usize {
                let k = typed[(20 + i % kk) % typed.len()];
                if mods.contains(&k) { continue; }
                v.extend(enc(k, KeyState::Down));
                v.extend(enc(k, KeyState::Up));
            }
            for m in mods.iter().rev() { v.extend(enc(*m, KeyState::Up)); }
            v.extend(enc(KeyCode::A, KeyState::Down));
            fam.push(v);
        }
    }
    // G1h: what a real 101/104-key keyboard sends: navigation keys wrapped in fake shifts
    // (E0 12 / E0 59 and their breaks) depending on the Shift / NumLock state, PrintScreen and
    // Pause sequences, each repeated a few times
    {
        let nav = [KeyCode::Insert, KeyCode::Home, KeyCode::PageUp, KeyCode::Delete, KeyCode::End, KeyCode::PageDown, KeyCode::ArrowUp, KeyCode::ArrowLeft, KeyCode::ArrowDown, KeyCode::ArrowRight, KeyCode::NumpadDivide];
        // fake shift bytes per set: (make, break) of the fake LShift and fake RShift
        let (fl_m, fl_b, fr_m, fr_b): (Vec<u8>, Vec<u8>, Vec<u8>, Vec<u8>) = if set2 {
            (vec![0xE0, 0x12], vec![0xE0, 0xF0, 0x12], vec![0xE0, 0x59], vec![0xE0, 0xF0, 0x59])
        } else {
            (vec![0xE0, 0x2A], vec![0xE0, 0xAA], vec![0xE0, 0x36], vec![0xE0, 0xB6])
        };
        for shift in 0..4u8 {
            for numlock in [false, true] {
                for (reps, typematic) in [(1usize, false), (1, true), (3, false), (40, false), (40, true)] {
                    let mut v = Vec::new();
                    if shift & 1 != 0 { v.extend(enc(KeyCode::LShift, KeyState::Down)); }
                    if shift & 2 != 0 { v.extend(enc(KeyCode::RShift, KeyState::Down)); }
                    for _ in 0..reps {
                        for k in nav {
                            // shifted: the keyboard un-shifts around the key; NumLock on and no shift: it shifts
                            let (pre, post): (Vec<u8>, Vec<u8>) = if shift != 0 {
                                let mut pre = Vec::new(); let mut post = Vec::new();
                                if shift & 1 != 0 { pre.extend(&fl_b); post.extend(&fl_m); }
                                if shift & 2 != 0 { pre.extend(&fr_b); post.extend(&fr_m); }
                                (pre, post)
                            } else if numlock { (fl_m.clone(), fl_b.clone()) } else { (vec![], vec![]) };
                            v.extend(&pre);
                            v.extend(enc(k, KeyState::Down));
                            if typematic { v.extend(enc(k, KeyState::Down)); }
                            v.extend(enc(k, KeyState::Up));
                            v.extend(&post);
                        }
                        // PrintScreen and Pause as sent on the wire
                        if set2 {
                            v.extend([0xE0, 0x12, 0xE0, 0x7C, 0xE0, 0xF0, 0x7C, 0xE0, 0xF0, 0x12]);
                            v.extend([0xE1, 0x14, 0x77, 0xE1, 0xF0, 0x14, 0xF0, 0x77]);
                        } else {
                            v.extend([0xE0, 0x2A, 0xE0, 0x37, 0xE0, 0xB7, 0xE0, 0xAA]);
                            v.extend([0xE1, 0x1D, 0x45, 0xE1, 0x9D, 0xC5]);
                        }
                    }
                    if shift & 2 != 0 { v.extend(enc(KeyCode::RShift, KeyState::Up)); }
                    if shift & 1 != 0 { v.extend(enc(KeyCode::LShift, KeyState::Up)); }
                    v.extend(enc(KeyCode::A, KeyState::Down));
                    v.extend(&fl_m);
                    v.extend(enc(KeyCode::LShift, KeyState::Up));
                    fam.push(v);
                }
            }
        }
    }
    // G1k: lossy device: typing that includes extended keys, where the device drops the E0
    // prefix of every break / of every make / drops the F0 (Set 2) of every n-th break
    {
        let ext = [KeyCode::RAltGr, KeyCode::RControl, KeyCode::ArrowUp, KeyCode::Home, KeyCode::LWin, KeyCode::NumpadEnter, KeyCode::Delete];
        let plain = [KeyCode::A, KeyCode::S, KeyCode::Spacebar, KeyCode::LShift];
        for variant in 0..4u8 {
            for nplain in [0usize, 1, 3] {
                let mut v = Vec::new();
                for i in 0..2500usize {
                    let k = ext[i % ext.len()];
                    let (mut mk, mut bk) = (enc(k, KeyState::Down), enc(k, KeyState::Up));
                    match variant {
                        0 => { bk.remove(0); }                 // break loses E0
                        1 => { mk.remove(0); }                 // make loses E0
                        2 => { if i % 3 == 0 { bk.remove(0); } }
                        _ => { if set2 && i % 4 == 1 { bk.retain(|b| *b != 0xF0); } }
                    }
                    v.extend(&mk);
                    v.extend(&bk);
                    for j in 0..nplain {
                        let p = plain[(i + j) % plain.len()];
                        v.extend(enc(p, KeyState::Down));
                        if !(variant == 3 && p == KeyCode::A) { v.extend(enc(p, KeyState::Up)); }
                    }
                }
                for k in ext {
                    v.extend(enc(k, KeyState::Down));
                    let mut bk = enc(k, KeyState::Up);
                    bk.remove(0);
                    v.extend(&bk);
                    v.extend(enc(k, KeyState::Up));
                }
                fam.push(v);
            }
        }
    }
    // G1i: three-phase small-count grid U^a K^b P^c: a few undefined codes, a key repeated, then
    // any byte once or twice (statistics-driven heuristics with small thresholds)
    {
        let errs: Vec<Vec<u8>> = vec![vec![0x02], vec![0xFF], vec![0xE0, 0x02], vec![0x00]];
        let ks = [KeyCode::A, KeyCode::ArrowUp, KeyCode::Numpad8, KeyCode::LControl, KeyCode::RControl, KeyCode::F7];
        for u in &errs {
            for a in [0usize, 8, 40] {
                for k in ks {
                    let mk = enc(k, KeyState::Down);
                    if mk.is_empty() { continue; }
                    for b in [5usize, 16, 32, 300] {
                        let mut base = Vec::new();
                        for _ in 0..a { base.extend(u); }
                        for _ in 0..b { base.extend(&mk); }
                        for p in 0..=255u8 {
                            for c in [1usize, 2] {
                                let mut v = base.clone();
                                v.extend(std::iter::repeat(p).take(c));
                                v.extend(enc(k, KeyState::Up));
                                fam.push(v);
                            }
                        }
                    }
                }
            }
        }
    }
    // G1j: power-of-two boundaries: any byte repeated n times for n around 1024 / 2048 / 4096,
    // then prefixed traffic (window-based statistics that act exactly at a boundary)
    {
        let tail: Vec<u8> = [vec![0xE0], enc(KeyCode::Numpad8, KeyState::Down), enc(KeyCode::ArrowUp, KeyState::Down), enc(KeyCode::ArrowUp, KeyState::Up), vec![0xE0, 0xE0], enc(KeyCode::Numpad8, KeyState::Down)].concat();
        for b in 0..=255u8 {
            for n in [1023usize, 1024, 1025, 2047, 2048, 2049, 4095, 4096, 4097] {
                if n > 3000 && !thorough && b % 8 != 2 { continue; }
                let mut v = vec![b; n];
                v.extend(&tail);
                fam.push(v);
            }
        }
        // two phases of ~1100 each (e.g. 1024 good events, 1024 undefined codes), then the tail
        let goods = [enc(KeyCode::A, KeyState::Down), [enc(KeyCode::A, KeyState::Down), enc(KeyCode::A, KeyState::Up)].concat()];
        for g in &goods {
            for b in [0x02u8, 0x7F, 0xFF, 0x00, 0xFA] {
                for (i, j) in [(1024usize, 1024usize), (1100, 1100), (2048, 300)] {
                    for order in [false, true] {
                        let mut v = Vec::new();
                        let (mut first, mut second): (Vec<u8>, Vec<u8>) = (Vec::new(), Vec::new());
                        for _ in 0..i { first.extend(g); }
                        for _ in 0..j { second.push(b); }
                        if order { v.extend(&second); v.extend(&first); } else { v.extend(&first); v.extend(&second); }
                        v.extend(&tail);
                        v.extend([0xFA, 0x00, 0xFF]);
                        v.extend(enc(KeyCode::Q, KeyState::Down));
                        fam.push(v);
                    }
                }
            }
        }
    }
    // G1g: burst cycles (c1^a c2^b)^30 over make/break forms of 10 keys and 14 error cells
    {
        let mut cells: Vec<Vec<u8>> = Vec::new();
        for k in [KeyCode::A, KeyCode::LShift, KeyCode::ArrowUp, KeyCode::Numpad8, KeyCode::RControl, KeyCode::LControl, KeyCode::RAltGr, KeyCode::Home, KeyCode::Numpad7, KeyCode::CapsLock] {
            cells.push(enc(k, KeyState::Down));
            cells.push(enc(k, KeyState::Up));
        }
        for c in [vec![0x00u8], vec![0xFF], vec![0xFA], vec![0xAA], vec![0x02], vec![0x7F], vec![0xE0, 0x00], vec![0xE0, 0x02], vec![0xE0, 0xFF], vec![0xE1, 0x00], vec![0xE0], vec![0xE1], vec![0xF3], vec![0x80]] {
            cells.push(c);
        }
        for a in &cells {
            for b in &cells {
                if a == b { continue; }
                for (na, nb) in [(2usize, 1usize), (3, 1), (4, 2), (5, 1), (8, 3), (1, 2), (2, 2), (16, 1)] {
                    let mut v = Vec::new();
                    for _ in 0..30 {
                        for _ in 0..na { v.extend(a); }
                        for _ in 0..nb { v.extend(b); }
                    }
                    v.extend(enc(KeyCode::Q, KeyState::Down));
                    v.extend(enc(KeyCode::ArrowUp, KeyState::Down));
                    fam.push(v);
                }
            }
        }
    }
    let g1e = fam.len() - g1a - g1b - g1d;
    (fam, (g1a, g1b, g1d, g1e))
}

/// first index at which the real decoder (fresh) deviates from the model table, known
/// findings tolerated
fn fast_mismatch<M: RefModel>(run: &Run, mtab: &[Vec<(Out, usize)>], ctxs: &[M::Ctx], start_c: usize, bytes: &[u8]) -> Option<usize> {
    let r = guard(|| {
        let mut d = <M::D as Dec>::fresh();
        let mut ci = start_c;
        for (i, b) in bytes.iter().enumerate() {
            let o = d.advance_state(*b);
            let (want, cnext) = mtab[ci][*b as usize];
            if !M::accepts(ctxs[ci], *b, &o) && !run.is_known(&cell_sig::<M>(ctxs[ci], *b, &want, &sc_out_str(&o))) {
                return Some(i);
            }
            ci = cnext;
        }
        None
    });
    match r {
        Ok(x) => x,
        Err(_) => Some(bytes.len().saturating_sub(1)),
    }
}

/// Deep-history families (all against the model at every step):
///  G1a  A^700 B^j tail      key held for a long time, then j in {1,2,3,5,8} copies of any byte
///                           (or 2-byte error cell), then the key again / its break / another key
///  G1b  A s A^2500          key, a protocol/status byte, then the key repeating for > 1 minute
///  G1c  (c1 c2)^24          every ordered pair of complete cells, repeated 24 times
///  G1d  X F^n P             an error cell, n event-producing filler bytes with n around 2^8
///                           (thorough: 2^16), then every byte: distances that wrap a counter
fn deep_streams<M: RefModel>(run: &mut Run, mtab: &[Vec<(Out, usize)>], ctxs: &[M::Ctx], start_c: usize) {
    let set2 = <M::D as Dec>::IS_SET2;
    let (fam, (g1a, g1b, g1d, g1e)) = deep_stream_families(set2, run.tier == Tier::Thorough);
    let bad: Vec<Vec<u8>> = {
        let rr: &Run = run;
        fam.par_iter().filter_map(|v| fast_mismatch::<M>(rr, mtab, ctxs, start_c, v).map(|i| v[..=i].to_vec())).collect()
    };
    // G1c: all ordered pairs of cells x 24 (generated on the fly)
    let mut cells: Vec<Vec<u8>> = Vec::new();
    for p in sc::PFXS {
        for c in 0..=255u8 {
            if !set2 && c >= 0x80 { continue; }
            let defined = if set2 { sc::set2_lookup(p, c).is_some() } else { sc::set1_lookup(p, c).is_some() };
            if !defined && !(c % 16 == 2 || c == 0x00 || c == 0x7F) { continue; }
            let mut m = Vec::new();
            if let Some(b) = p.byte() { m.push(b); }
            let mut brk = m.clone();
            if set2 { m.push(c); brk.push(0xF0); brk.push(c); } else { m.push(c); brk.push(c | 0x80); }
            cells.push(m);
            cells.push(brk);
        }
    }
    let reps = 24usize;
    let bad_pairs: Vec<Vec<u8>> = {
        let rr: &Run = run;
        (0..cells.len()).into_par_iter().flat_map_iter(|i| {
            let mut out = Vec::new();
            for j in 0..cells.len() {
                let unit: Vec<u8> = [cells[i].clone(), cells[j].clone()].concat();
                let v: Vec<u8> = unit.iter().copied().cycle().take(unit.len() * reps).collect();
                if let Some(k) = fast_mismatch::<M>(rr, mtab, ctxs, start_c, &v) {
                    if out.len() < 2 { out.push(v[..=k].to_vec()); }
                }
            }
            out.into_iter()
        }).collect()
    };
    // every defined make sequence paired with EVERY cell (defined or not), repeated 24 times
    let mut all_cells: Vec<Vec<u8>> = Vec::new();
    let mut make_cells: Vec<Vec<u8>> = Vec::new();
    for p in sc::PFXS {
        for c in 0..=255u8 {
            if !set2 && c >= 0x80 { continue; }
            let mut m = Vec::new();
            if let Some(b) = p.byte() { m.push(b); }
            let mut brk = m.clone();
            if set2 { m.push(c); brk.push(0xF0); brk.push(c); } else { m.push(c); brk.push(c | 0x80); }
            let defined = if set2 { sc::set2_lookup(p, c).is_some() } else { sc::set1_lookup(p, c).is_some() };
            if defined { make_cells.push(m.clone()); }
            all_cells.push(m);
            all_cells.push(brk);
        }
    }
    let bad_pairs2: Vec<Vec<u8>> = {
        let rr: &Run = run;
        make_cells.par_iter().flat_map_iter(|c1| {
            let mut out = Vec::new();
            for c2 in &all_cells {
                let unit: Vec<u8> = [c1.clone(), c2.clone()].concat();
                let v: Vec<u8> = unit.iter().copied().cycle().take(unit.len() * reps).collect();
                if let Some(k) = fast_mismatch::<M>(rr, mtab, ctxs, start_c, &v) {
                    if out.len() < 2 { out.push(v[..=k].to_vec()); }
                }
            }
            out.into_iter()
        }).collect()
    };
    let bad_pairs: Vec<Vec<u8>> = bad_pairs.into_iter().chain(bad_pairs2.into_iter()).collect();
    let total = fam.len() as u64 + (cells.len() * cells.len()) as u64 + (make_cells.len() * all_cells.len()) as u64;
    run.eval(total);
    run.nontrivial_enum(total);
    for v in bad.iter().chain(bad_pairs.iter()).take(10) {
        eval_stream::<M>(run, v);
    }
    run.total_violating_cases += (bad.len() + bad_pairs.len()).saturating_sub(10) as u64;
    run.part("deep_history_families", json!({"A^700.B^j.tail": g1a, "A.s.A^2500": g1b, "X.F^n.P(wrap probes, n around 2^8 / 2^16)": g1d, "(A^p.B)^m two-scale periodic + long typing sessions (own and other set encoding) + burst cycles (c1^a c2^b)^30 + typing with 1-3 modifiers held + real-keyboard traffic with fake shifts + U^a.K^b.P^c grid + power-of-two boundaries + lossy-device sessions (dropped E0 / F0)": g1e, "cells": cells.len(), "(c1.c2)^24 pairs": cells.len() * cells.len(), "(defined make . any cell)^24 pairs": make_cells.len() * all_cells.len(), "failing": bad.len() + bad_pairs.len()}));
}

/// byte patterns that are repeated tens of thousands of times
pub fn pump_patterns(set2: bool) -> Vec<Vec<u8>> {
    if set2 {
        vec![
            vec![0x1C],                                     // typematic A
            vec![0x1C, 0xF0, 0x1C],                         // tap A
            vec![0xE0, 0x75, 0xE0, 0xF0, 0x75],             // tap ArrowUp
            vec![0x12, 0x1C, 0xF0, 0x1C, 0xF0, 0x12],       // shift-A
            vec![0xFF],                                     // unknown
            vec![0xE0, 0xFF],                               // unknown extended
            vec![0xE0, 0xF0, 0x02, 0x1C],                   // unknown extended release, then a key
            vec![0xE1, 0x14, 0x77, 0xE1, 0xF0, 0x14, 0xF0, 0x77], // Pause
            vec![0xAA], vec![0x00], vec![0xFA],
            vec![0xE0, 0x12, 0xE0, 0x7C, 0xE0, 0xF0, 0x7C, 0xE0, 0xF0, 0x12], // PrintScreen
            vec![0x58, 0xF0, 0x58],                         // CapsLock
        ]
    } else {
        vec![
            vec![0x1E],
            vec![0x1E, 0x9E],
            vec![0xE0, 0x48, 0xE0, 0xC8],
            vec![0x2A, 0x1E, 0x9E, 0xAA],
            vec![0x7F],
            vec![0xE0, 0x7F],
            vec![0xE0, 0x02, 0x1E],
            vec![0xE1, 0x1D, 0x45, 0xE1, 0x9D, 0xC5],
            vec![0xAA], vec![0x00], vec![0xFA],
            vec![0xE0, 0x2A, 0xE0, 0x37, 0xE0, 0xB7, 0xE0, 0xAA],
            vec![0x3A, 0xBA],
        ]
    }
}

#[derive(Default)]
struct StreamStats {
    cases: u64,
    bytes: u64,
    with_error_then_key: u64,
    with_prefix_in_code_pos: u64,
    with_ext_release: u64,
    with_e1: u64,
    long: u64,
    nontrivial: Vec<u64>,
    tolerated: u64,
    samples: Vec<Value>,
}

fn random_streams<M: RefModel>(run: &mut Run, cases: u32) {
    let set2 = <M::D as Dec>::IS_SET2;
    let stats = RefCell::new(StreamStats::default());
    let outcome = {
        let runref: &Run = run;
        run_prop(
            run.seed,
            if set2 { 0xC01 } else { 0xC02 },
            cases,
            gen::sc_stream(64),
            |chunks, counting| {
                let bytes = gen::sc_stream_bytes(set2, chunks);
                let outs = match run_bytes::<M::D>(&bytes) {
                    Ok(o) => o,
                    Err(p) => return Err(format!("panic: {}", p)),
                };
                let mut tol = 0u64;
                let mm = walk_model::<M>(&bytes, &outs, |s| {
                    if runref.is_known(s) {
                        tol += 1;
                        true
                    } else {
                        false
                    }
                });
                if counting {
                    let mut st = stats.borrow_mut();
                    st.cases += 1;
                    st.bytes += bytes.len() as u64;
                    st.tolerated += tol;
                    // classify with the model
                    let mut c = M::start();
                    let (mut err_seen, mut err_then_key, mut multi, mut any_err) = (false, false, false, false);
                    let mut run_len = 0;
                    for b in &bytes {
                        let (o, n) = M::step(c, *b);
                        match o {
                            Out::None => run_len += 1,
                            Out::Unknown => {
                                if run_len > 0 { multi = true; }
                                err_seen = true;
                                any_err = true;
                                run_len = 0;
                            }
                            Out::Ev(..) => {
                                if run_len > 0 { multi = true; }
                                if err_seen { err_then_key = true; }
                                run_len = 0;
                            }
                        }
                        c = n;
                    }
                    if err_then_key { st.with_error_then_key += 1; }
                    if chunks.iter().any(|c| matches!(c, gen::ScChunk::Prefixy(i) if *i >= 3)) { st.with_prefix_in_code_pos += 1; }
                    if bytes.windows(2).any(|w| (w[0] == 0xE0 && w[1] == 0xF0) || (w[0] == 0xE0 && w[1] >= 0x80 && !set2)) { st.with_ext_release += 1; }
                    if bytes.contains(&0xE1) { st.with_e1 += 1; }
                    if bytes.len() > 32 { st.long += 1; }
                    if multi && any_err { st.nontrivial.push(fp(&bytes)); }
                    if st.samples.len() < 3 && bytes.len() > 6 {
                        let outs_s: Vec<String> = outs.iter().map(sc_out_str).collect();
                        st.samples.push(json!({"layer":"random-stream","set":<M::D as Dec>::NAME,"bytes":hex(&bytes),"observed":outs_s}));
                    }
                }
                match mm {
                    None => Ok(()),
                    Some(m) => Err(m.sig),
                }
            },
        )
    };
    let st = stats.into_inner();
    run.eval(st.cases);
    run.tolerated_known += st.tolerated;
    for f in &st.nontrivial {
        run.nontrivial_fp(*f);
    }
    for s in st.samples {
        run.sample(|| s);
    }
    run.part(
        "random_streams",
        json!({"cases": st.cases, "bytes": st.bytes, "classes": {
            "error_then_valid_key": st.with_error_then_key, "prefix_in_code_position": st.with_prefix_in_code_pos,
            "extended_release": st.with_ext_release, "contains_E1": st.with_e1, "longer_than_32_bytes": st.long,
            "nontrivial(multi-byte sequence + error)": st.nontrivial.len()}}),
    );
    if let Some((chunks, _)) = outcome.failure {
        let bytes = gen::sc_stream_bytes(set2, &chunks);
        eval_stream::<M>(run, &bytes);
    }
}

/// BFS over *concrete* decoder states (cloned), deduplicated by (masked Debug rendering,
/// model context): a successor is only enqueued if its masked name is new, but the state that
/// is enqueued and later expanded is the real successor with its real model context, so every
/// compared cell is a real execution. The mask hides tokens that behaved like a counter on the
/// transitions sampled from the partial graph.
fn guided_walk<M: RefModel>(run: &mut Run, g: &Graph<M::D>, mtab: &[Vec<(Out, usize)>], ctxs: &[M::Ctx], start_c: usize) {
    let set = <M::D as Dec>::NAME;
    let mut samples: Vec<(String, String)> = Vec::new();
    'outer: for s in 0..g.expanded().min(400) {
        let ps = format!("{:?}", g.states[s]);
        for b in (0..=255u8).step_by(5) {
            if let Step::Ret(_, j) = g.step(s, b) {
                if j < g.states.len() {
                    samples.push((ps.clone(), format!("{:?}", g.states[j])));
                    if samples.len() >= 6000 { break 'outer; }
                }
            }
        }
    }
    let mask = crate::explore::counter_mask(&samples);
    let masked = mask.iter().filter(|m| **m).count();
    if masked == 0 {
        run.part("guided_walk", json!({"note": "graph not closed and no counter-like token found in the Debug rendering: skipped"}));
        return;
    }
    let cap = g.cap;
    struct Node<D> { st: D, ci: usize, parent: Option<(u32, u8)> }
    let mut nodes: Vec<Node<M::D>> = vec![Node { st: <M::D as Dec>::fresh(), ci: start_c, parent: None }];
    let mut seen: std::collections::HashSet<(String, usize)> = std::collections::HashSet::new();
    seen.insert((crate::explore::apply_mask(&format!("{:?}", nodes[0].st), &mask), start_c));
    let hist_of = |nodes: &Vec<Node<M::D>>, mut i: usize| -> Vec<u8> {
        let mut v = Vec::new();
        while let Some((p, b)) = nodes[i].parent { v.push(b); i = p as usize; }
        v.reverse();
        v
    };
    let mut level_start = 0usize;
    let mut cells = 0u64;
    let mut max_depth = 0usize;
    let mut depth: Vec<u32> = vec![0];
    let mut bad: Vec<(usize, u8)> = Vec::new();
    while level_start < nodes.len() && nodes.len() < cap {
        let level_end = nodes.len();
        // expand the level in parallel: per node, per byte -> (accepts, successor, masked name, next ctx)
        let expanded: Vec<Vec<(bool, Option<(M::D, String)>, usize)>> = nodes[level_start..level_end]
            .par_iter()
            .map(|n| {
                (0..=255u8)
                    .map(|b| {
                        let mut st = n.st.clone();
                        let (_, cnext) = mtab[n.ci][b as usize];
                        match guard(|| { let o = st.advance_state(b); (o, st) }) {
                            Ok((o, st2)) => {
                                let ok = M::accepts(ctxs[n.ci], b, &o);
                                let name = crate::explore::apply_mask(&format!("{:?}", st2), &mask);
                                (ok, Some((st2, name)), cnext)
                            }
                            Err(_) => (false, None, cnext),
                        }
                    })
                    .collect()
            })
            .collect();
        for (off, row) in expanded.into_iter().enumerate() {
            let i = level_start + off;
            for (b, (ok, succ, cnext)) in row.into_iter().enumerate() {
                cells += 1;
                if !ok {
                    // known findings are tolerated exactly as in the graph walk
                    let (want, _) = mtab[nodes[i].ci][b];
                    let tolerated = match &succ {
                        Some((st2, _)) => {
                            let mut probe = nodes[i].st.clone();
                            let o = probe.advance_state(b as u8);
                            let _ = st2;
                            run.is_known(&cell_sig::<M>(ctxs[nodes[i].ci], b as u8, &want, &sc_out_str(&o)))
                        }
                        None => false,
                    };
                    if !tolerated {
                        if bad.len() < 12 { bad.push((i, b as u8)); }
                        continue;
                    }
                }
                if let Some((st2, name)) = succ {
                    if nodes.len() < cap && seen.insert((name, cnext)) {
                        nodes.push(Node { st: st2, ci: cnext, parent: Some((i as u32, b as u8)) });
                        let d = depth[i] + 1;
                        depth.push(d);
                        max_depth = max_depth.max(d as usize);
                    }
                }
            }
        }
        level_start = level_end;
    }
    run.eval(cells);
    run.nontrivial_enum(cells.saturating_sub(256));
    for (i, b) in &bad {
        let mut bytes = hist_of(&nodes, *i);
        bytes.push(*b);
        eval_stream::<M>(run, &bytes);
    }
    run.part("guided_walk", json!({"set": set, "counter_like_tokens_masked": masked, "nodes": nodes.len(), "cap": cap, "closed": level_start >= nodes.len(), "max_depth": max_depth, "cells": cells, "failing(sampled)": bad.len()}));
}

pub fn c01(run: &mut Run) {
    check_decode::<M2>(run);
}
pub fn c02(run: &mut Run) {
    check_decode::<M1>(run);
}

// ---------------------------------------------------------------------------------------
// C07 — resynchronisation (table-independent)
// ---------------------------------------------------------------------------------------
fn none_bound<D: Dec>() -> usize {
    if D::IS_SET2 {
        2
    } else {
        1
    }
}

/// Shadow-decoder differential on one stream (hook-free): the shadow is replaced by a fresh
/// decoder whenever the real one reports an event or an error; outputs must agree at every
/// step and no run of Ok(None) may exceed the bound. Returns (index, sig, what) of the first
/// deviation.
fn shadow_eval<D: Dec>(bytes: &[u8]) -> Result<Option<(usize, String, String)>, String> {
    guard(|| {
        let mut real = D::fresh();
        let mut shadow = D::fresh();
        let mut none_run = 0usize;
        let mut since = 0usize; // start of the current sequence
        for (i, b) in bytes.iter().enumerate() {
            let o = real.advance_state(*b);
            let s = shadow.advance_state(*b);
            if o != s {
                return Some((
                    i,
                    format!("{}:resync:seq=[{}]:fresh={}:got={}", D::NAME, hex(&bytes[since..=i]).replace(' ', "."), sc_out_str(&s), sc_out_str(&o)),
                    format!(
                        "{} decoder: after the stream [{}] (which ended in an event or error before offset {}), the bytes [{}] decode to {} but a fresh decoder gives {} — earlier input leaks into later bytes",
                        D::NAME, hex(&bytes[..since]), since, hex(&bytes[since..=i]), sc_out_str(&o), sc_out_str(&s)
                    ),
                ));
            }
            if matches!(o, Ok(None)) {
                none_run += 1;
                if none_run > none_bound::<D>() {
                    return Some((
                        i,
                        format!("{}:none-run>{}:seq=[{}]", D::NAME, none_bound::<D>(), hex(&bytes[since..=i]).replace(' ', ".")),
                        format!(
                            "{} decoder: 'no event yet' returned for {} consecutive bytes [{}] (bound is {})",
                            D::NAME, none_run, hex(&bytes[i + 1 - none_run..=i]), none_bound::<D>()
                        ),
                    ));
                }
            } else {
                none_run = 0;
                shadow = D::fresh();
                since = i + 1;
            }
        }
        None
    })
}

fn c07_case<D: Dec>(bytes: &[u8]) -> Value {
    json!({"kind":"resync_stream","set":D::NAME,"bytes":bytes,"hex":hex(bytes)})
}

pub fn c07_eval_stream<D: Dec>(run: &mut Run, bytes: &[u8]) {
    run.eval(1);
    match shadow_eval::<D>(bytes) {
        Err(p) => run.violation(Violation {
            sig: format!("{}:stream:{}", D::NAME, panic_sig(&p)),
            what: format!("{} decoder panics on [{}]: {}", D::NAME, hex(bytes), p),
            case: c07_case::<D>(bytes),
        }),
        Ok(Some((at, sig, what))) => run.violation(Violation { sig, what, case: c07_case::<D>(&bytes[..=at]) }),
        Ok(None) => {}
    }
}

/// Exhaustive shadow differential over all streams of exactly `len` bytes (all shorter ones
/// are prefixes), prefix-shared DFS with cloned decoder states, parallel over the first byte.
fn shadow_exhaustive<D: Dec>(len: usize) -> (u64, u64, Vec<Vec<u8>>) {
    // returns (streams, streams with an error followed by >=2 bytes, failing streams (first few))
    fn dfs<D: Dec>(
        real: &D,
        shadow: &D,
        none_run: usize,
        depth: usize,
        len: usize,
        prefix: &mut Vec<u8>,
        err_at: Option<usize>,
        acc: &mut (u64, u64, Vec<Vec<u8>>),
    ) {
        if depth == len {
            acc.0 += 1;
            if let Some(e) = err_at {
                if len - e > 2 {
                    acc.1 += 1;
                }
            }
            return;
        }
        for b in 0..=255u8 {
            let mut r = real.clone();
            let mut s = shadow.clone();
            let o = r.advance_state(b);
            let so = s.advance_state(b);
            prefix.push(b);
            let mut bad = o != so;
            let mut nr = none_run;
            let mut e = err_at;
            if matches!(o, Ok(None)) {
                nr += 1;
                if nr > none_bound::<D>() {
                    bad = true;
                }
            } else {
                nr = 0;
                s = D::fresh();
                if o.is_err() && e.is_none() {
                    e = Some(depth);
                }
            }
            if bad {
                if acc.2.len() < 64 {
                    acc.2.push(prefix.clone());
                }
                // count the subtree as explored-and-failed without descending
                acc.0 += 1;
            } else {
                dfs::<D>(&r, &s, nr, depth + 1, len, prefix, e, acc);
            }
            prefix.pop();
        }
    }
    let parts: Vec<(u64, u64, Vec<Vec<u8>>)> = (0..=255u8)
        .into_par_iter()
        .map(|b0| {
            let mut acc = (0u64, 0u64, Vec::new());
            let res = guard(|| {
                let mut r = D::fresh();
                let mut s = D::fresh();
                let o = r.advance_state(b0);
                let so = s.advance_state(b0);
                let mut prefix = vec![b0];
                let mut nr = 0;
                let mut e = None;
                let mut bad = o != so;
                if matches!(o, Ok(None)) {
                    nr = 1;
                } else {
                    s = D::fresh();
                    if o.is_err() {
                        e = Some(0);
                    }
                }
                if nr > none_bound::<D>() {
                    bad = true;
                }
                if bad {
                    acc.2.push(prefix.clone());
                    acc.0 += 1;
                } else if len > 1 {
                    dfs::<D>(&r, &s, nr, 1, len, &mut prefix, e, &mut acc);
                } else {
                    acc.0 += 1;
                }
            });
            if res.is_err() {
                acc.2.push(vec![b0]); // a panic somewhere below b0: re-examined by the caller
            }
            acc
        })
        .collect();
    let mut tot = (0u64, 0u64, Vec::new());
    for p in parts {
        tot.0 += p.0;
        tot.1 += p.1;
        tot.2.extend(p.2);
    }
    tot
}

fn c07_for<D: Dec>(run: &mut Run) {
    let g = Graph::<D>::extract_with_cap(crate::graph::state_cap(run.tier == Tier::Thorough));
    let mut cells = 0u64;
    if g.closed {
        let classes = g.equivalence_classes();
        let n = g.expanded();
        let mut reported = 0usize;
        // (i) every event/error edge leads to a state behaviourally equivalent to new()
        for s in 0..n {
            for b in 0..=255u8 {
                cells += 1;
                match g.step(s, b) {
                    Step::Panic(p) => {
                        let hist = g.history(s);
                        let mut bytes = hist.clone();
                        bytes.push(b);
                        run.violation(Violation {
                            sig: format!("{}:state[{}]:byte={:02X}:{}", D::NAME, hex(&hist).replace(' ', "."), b, panic_sig(&p)),
                            what: format!("{} decoder panics on byte {:02X} after [{}]: {}", D::NAME, b, hex(&hist), p),
                            case: c07_case::<D>(&bytes),
                        });
                    }
                    Step::Ret(o, j) => {
                        let is_ev_or_err = !matches!(o, Ok(None));
                        if is_ev_or_err && (s != 0 || o.is_err()) {
                            run.nontrivial_enum(1);
                        }
                        if is_ev_or_err && j < n && classes[j] != classes[0] {
                            if reported < 24 {
                                reported += 1;
                                let hist = g.history(s);
                                let mut bytes = hist.clone();
                                bytes.push(b);
                                run.violation(Violation {
                                    sig: format!("{}:not-reset:after=[{}]:out={}", D::NAME, hex(&bytes).replace(' ', "."), sc_out_str(&o)),
                                    what: format!(
                                        "{} decoder: [{}] ends with {} but leaves the decoder in a state (reached by [{}]) that is not equivalent to a fresh decoder",
                                        D::NAME, hex(&bytes), sc_out_str(&o), hex(&g.history(j))
                                    ),
                                    case: json!({"kind":"resync_state","set":D::NAME,"bytes":bytes,"hex":hex(&bytes)}),
                                });
                            } else {
                                run.total_violating_cases += 1;
                            }
                        }
                        if cells % 41 == 0 && run.wants_sample() {
                            let hist = g.history(s);
                            let eq = j < n && classes[j] == classes[0];
                            run.sample(|| json!({"layer":"graph-edge","set":D::NAME,"history":hex(&hist),"byte":format!("{:02X}",b),"output":sc_out_str(&o),"next_state_equivalent_to_fresh":eq}));
                        }
                    }
                }
            }
        }
        run.eval(cells);
        // (ii) longest path of Ok(None) edges
        let (longest, worst) = g.longest_none_path();
        let too_long = match longest {
            None => true,
            Some(l) => l > none_bound::<D>(),
        };
        if too_long {
            // witness: from the worst state follow None edges greedily
            let mut st = worst;
            let mut bytes = g.history(st);
            for _ in 0..none_bound::<D>() + 2 {
                if let Some(b) = (0..=255u8).find(|b| g.out_is_none(st, *b)) {
                    bytes.push(b);
                    if let Step::Ret(_, j) = g.step(st, b) {
                        if j < n {
                            st = j;
                        }
                    }
                }
            }
            let before = run.violations.len();
            c07_eval_stream::<D>(run, &bytes);
            if run.violations.len() == before {
                run.violation(Violation {
                    sig: format!("{}:none-path={}", D::NAME, longest.map(|l| l.to_string()).unwrap_or_else(|| "unbounded".into())),
                    what: format!("{} decoder: a path of {} consecutive 'no event yet' results exists (bound {})", D::NAME, longest.map(|l| l.to_string()).unwrap_or_else(|| "unboundedly many".into()), none_bound::<D>()),
                    case: c07_case::<D>(&bytes),
                });
            }
        }
        run.part(
            &format!("{}_graph", D::NAME),
            json!({"states": n, "edges": cells, "equivalence_classes": classes.iter().collect::<BTreeSet<_>>().len(), "longest_none_path": longest.map(|l| json!(l)).unwrap_or(json!("unbounded"))}),
        );
    } else {
        run.inconclusive.push(format!("{}: more than {} distinguishable states, graph layer skipped (black-box layers unaffected)", D::NAME, g.cap));
    }

    // (iii) black-box shadow differential, exhaustive over all streams of length <= L
    let len = run.tier.pick(3usize, 4usize);
    let (streams, nontriv, failing) = shadow_exhaustive::<D>(len);
    run.eval(streams);
    run.nontrivial_enum(nontriv);
    for f in failing.iter().take(32) {
        c07_eval_stream::<D>(run, f);
    }
    run.part(
        &format!("{}_all_streams", D::NAME),
        json!({"length": len, "streams": streams, "with_error_followed_by_2+_bytes": nontriv, "failing_prefixes": failing.len()}),
    );

    // (iii') pumping: every byte 700 times, typical patterns beyond 2^16 steps
    for b in 0..=255u8 {
        c07_eval_stream::<D>(run, &vec![b; 700]);
    }
    for pat in pump_patterns(D::IS_SET2) {
        let reps = 70_000 / pat.len() + 1;
        let bytes: Vec<u8> = pat.iter().copied().cycle().take(reps * pat.len()).collect();
        c07_eval_stream::<D>(run, &bytes);
        run.nontrivial_fp(fp(&("pump", D::NAME, &pat)));
    }

    // (iii'') deep-history families (held key + stray bytes, wrap probes, two-scale periodic
    //         traffic) through the shadow differential
    {
        let (fam, sizes) = deep_stream_families(D::IS_SET2, run.tier == Tier::Thorough);
        let bad: Vec<usize> = fam.par_iter().enumerate().filter_map(|(i, v)| match shadow_eval::<D>(v) { Ok(None) => None, _ => Some(i) }).collect();
        run.eval(fam.len() as u64);
        run.nontrivial_enum(fam.len() as u64);
        for i in bad.iter().take(6) {
            c07_eval_stream::<D>(run, &fam[*i]);
        }
        run.total_violating_cases += bad.len().saturating_sub(6) as u64;
        run.part(&format!("{}_deep_history_families", D::NAME), json!({"families(A^700.B^j, A.s.A^2500, wrap probes, (A^p.B)^m)": [sizes.0, sizes.1, sizes.2, sizes.3], "failing": bad.len()}));
    }

    // (iv) random garbage, hook-free
    let n = run.tier.pick(20_000u32, 1_000_000u32);
    let stats = RefCell::new((0u64, 0u64, Vec::<u64>::new(), Vec::<Value>::new()));
    let outcome = run_prop(run.seed, if D::IS_SET2 { 0xC07_2 } else { 0xC07_1 }, n, gen::garbage(256), |bytes, counting| {
        let r = shadow_eval::<D>(bytes);
        if counting {
            let mut st = stats.borrow_mut();
            st.0 += 1;
            st.1 += bytes.len() as u64;
            if let Ok(outs) = run_bytes::<D>(bytes) {
                if let Some(p) = outs.iter().position(|o| o.is_err()) {
                    if bytes.len() - p > 2 {
                        st.2.push(fp(bytes));
                    }
                }
                if st.3.len() < 2 && bytes.len() > 8 {
                    st.3.push(json!({"layer":"random-garbage","set":D::NAME,"bytes":hex(&bytes[..bytes.len().min(24)]),"observed":outs.iter().take(24).map(sc_out_str).collect::<Vec<_>>()}));
                }
            }
        }
        match r {
            Ok(None) => Ok(()),
            Ok(Some((_, sig, _))) => Err(sig),
            Err(p) => Err(format!("panic {}", p)),
        }
    });
    let st = stats.into_inner();
    run.eval(st.0);
    for f in &st.2 {
        run.nontrivial_fp(*f);
    }
    for s in st.3 {
        run.sample(|| s);
    }
    run.part(&format!("{}_random_garbage", D::NAME), json!({"cases": st.0, "bytes": st.1, "nontrivial": st.2.len()}));
    if let Some((bytes, _)) = outcome.failure {
        c07_eval_stream::<D>(run, &bytes);
    }
}

pub fn c07(run: &mut Run) {
    run.rule = "Table-independent. (i) On the extracted reachable graph of each decoder, every transition whose output is an event or an error must lead to a state behaviourally equivalent (Mealy partition refinement) to a fresh decoder; (ii) the longest path of Ok(None) transitions is <= 2 (Set 2) / <= 1 (Set 1); (iii) black-box shadow-decoder differential over ALL byte streams of length <= 3 (quick) / <= 4 (thorough): a shadow decoder is replaced by a fresh one whenever the real decoder reports an event or error, outputs must be equal at every step; (iv) the same differential on deep-history families (key held 700 repeats then stray bytes, wrap probes with 254-258 fillers, two-scale periodic traffic (A^p B)^m with p up to 1024) and on random garbage streams of <= 256 bytes. Non-trivial = an event/error edge from a non-initial state or an error edge (distinct (state, byte)); a stream containing an error followed by >= 2 more bytes (exhaustive streams are distinct by construction; random ones by byte-string fingerprint).".into();
    run.assumptions = vec![
        "determinism of advance_state; hook-derived Clone/PartialEq capture the full state (only (i),(ii) and the prefix sharing of (iii) use them; (iv) is hook-free)".into(),
    ];
    c07_for::<ScancodeSet2>(run);
    c07_for::<ScancodeSet1>(run);
    run.exhaustive = true;
}

pub fn c07_replay_state<D: Dec>(run: &mut Run, bytes: &[u8]) {
    // after `bytes` (ending in an event/error) every continuation of <= 3 bytes must behave
    // as on a fresh decoder
    c07_eval_stream::<D>(run, bytes);
    let mut found = false;
    'outer: for len in 1..=2usize {
        let total = 256usize.pow(len as u32);
        for x in 0..total {
            let mut suffix = Vec::new();
            let mut y = x;
            for _ in 0..len {
                suffix.push((y & 0xFF) as u8);
                y >>= 8;
            }
            let mut all = bytes.to_vec();
            all.extend(&suffix);
            let a = run_bytes::<D>(&all);
            let f = run_bytes::<D>(&suffix);
            if let (Ok(a), Ok(f)) = (a, f) {
                if a[bytes.len()..] != f[..] {
                    run.violation(Violation {
                        sig: format!("{}:not-reset:after=[{}]", D::NAME, hex(bytes).replace(' ', ".")),
                        what: format!("{} decoder: after [{}] the continuation [{}] decodes differently than on a fresh decoder", D::NAME, hex(bytes), hex(&suffix)),
                        case: json!({"kind":"resync_state","set":D::NAME,"bytes":bytes}),
                    });
                    found = true;
                    break 'outer;
                }
            }
        }
    }
    let _ = found;
}

// ---------------------------------------------------------------------------------------
// C19 — pairing and injectivity, no reference table
// ---------------------------------------------------------------------------------------
fn last_out<D: Dec>(bytes: &[u8]) -> Result<ScOut, String> {
    run_bytes::<D>(bytes).map(|v| v.last().cloned().unwrap_or(Ok(None)))
}

fn c19_forms<D: Dec>(p: Pfx, code: u8) -> (Vec<u8>, Vec<u8>) {
    let mut make = Vec::new();
    if let Some(b) = p.byte() {
        make.push(b);
    }
    let mut brk = make.clone();
    if D::IS_SET2 {
        make.push(code);
        brk.push(0xF0);
        brk.push(code);
    } else {
        make.push(code);
        brk.push(code | 0x80);
    }
    (make, brk)
}

pub fn c19_eval_cell<D: Dec>(run: &mut Run, p: Pfx, code: u8, downs: &mut BTreeMap<String, Vec<(Pfx, u8)>>, ups: &mut BTreeMap<String, Vec<(Pfx, u8)>>) {
    c19_eval_cell_after::<D>(run, &[], p, code, downs, ups)
}

pub fn c19_eval_cell_after<D: Dec>(run: &mut Run, hist: &[u8], p: Pfx, code: u8, downs: &mut BTreeMap<String, Vec<(Pfx, u8)>>, ups: &mut BTreeMap<String, Vec<(Pfx, u8)>>) {
    let (make0, brk0) = c19_forms::<D>(p, code);
    let make: Vec<u8> = hist.iter().copied().chain(make0.iter().copied()).collect();
    let brk: Vec<u8> = hist.iter().copied().chain(brk0.iter().copied()).collect();
    run.eval(1);
    let case = json!({"kind":"pair_cell","set":D::NAME,"history":hist,"prefix":p.name(),"code":code,"make":hex(&make),"break":hex(&brk)});
    let (m, b) = match (last_out::<D>(&make), last_out::<D>(&brk)) {
        (Ok(m), Ok(b)) => (m, b),
        (Err(e), _) | (_, Err(e)) => {
            run.violation(Violation {
                sig: format!("{}:pair:{}:{:02X}:{}", D::NAME, p.name(), code, panic_sig(&e)),
                what: format!("{} decoder panics on make/break forms of {} {:02X}: {}", D::NAME, p.name(), code, e),
                case,
            });
            return;
        }
    };
    // sequences that are not complete (a prefix byte in code position continues the sequence)
    let make_incomplete = matches!(m, Ok(None));
    let brk_incomplete = matches!(b, Ok(None));
    let mk = match &m {
        Ok(Some(e)) => Some((e.code, e.state)),
        _ => None,
    };
    let bk = match &b {
        Ok(Some(e)) => Some((e.code, e.state)),
        _ => None,
    };
    if mk.is_some() || bk.is_some() {
        run.nontrivial_fp(fp(&("pair", D::NAME, p.name(), code)));
    }
    if run.wants_sample() && (mk.is_some() || code % 29 == 0) {
        let (m2, b2) = (m.clone(), b.clone());
        run.sample(|| json!({"set":D::NAME,"prefix":p.name(),"code":format!("{:02X}",code),"make":hex(&make),"make_out":sc_out_str(&m2),"break":hex(&brk),"break_out":sc_out_str(&b2)}));
    }
    let mut bad = |sigtail: String, what: String| {
        run.violation(Violation {
            sig: format!("{}:pair:{}{}:{:02X}:{}", D::NAME, if hist.is_empty() { String::new() } else { format!("after=[{}]:", hex(hist).replace(' ', ".")) }, p.name(), code, sigtail),
            what,
            case: case.clone(),
        });
    };
    match mk {
        Some((k, KeyState::Down)) => {
            downs.entry(key_name(k)).or_default().push((p, code));
            match bk {
                Some((k2, KeyState::Up)) if k2 == k => {}
                _ => bad(
                    format!("make=Down({:?}):break={}", k, sc_out_str(&b)),
                    format!("{}: [{}] is a press of {:?} but its break form [{}] gives {} instead of Up({:?})", D::NAME, hex(&make), k, hex(&brk), sc_out_str(&b), k),
                ),
            }
        }
        Some((_, KeyState::SingleShot)) => {} // the two one-shot status codes are exempt
        Some((k, KeyState::Up)) => bad(
            format!("make=Up({:?})", k),
            format!("{}: make form [{}] decodes as a release of {:?}", D::NAME, hex(&make), k),
        ),
        #[allow(unreachable_patterns)]
        Some((_, _)) => {}
        None => {
            if let Some((k2, KeyState::Up)) = bk {
                if !make_incomplete || !brk_incomplete {
                    bad(
                        format!("make={}:break=Up({:?})", sc_out_str(&m), k2),
                        format!("{}: [{}] is a release of {:?} but its make form [{}] gives {} — a release names a key that cannot be pressed", D::NAME, hex(&brk), k2, hex(&make), sc_out_str(&m)),
                    );
                }
            }
        }
    }
    if let Some((k2, st)) = bk {
        match st {
            KeyState::Up => ups.entry(key_name(k2)).or_default().push((p, code)),
            KeyState::Down => bad(
                format!("break=Down({:?})", k2),
                format!("{}: break form [{}] decodes as a press of {:?}", D::NAME, hex(&brk), k2),
            ),
            // a break form that decodes as a one-shot status event is neither a press nor a
            // release: the statement puts the one-shot status codes aside, nothing to check
            KeyState::SingleShot => {}
            #[allow(unreachable_patterns)]
            _ => {}
        }
    }
}

fn c19_for<D: Dec>(run: &mut Run) {
    let mut downs: BTreeMap<String, Vec<(Pfx, u8)>> = BTreeMap::new();
    let mut ups: BTreeMap<String, Vec<(Pfx, u8)>> = BTreeMap::new();
    let codes: Vec<u8> = if D::IS_SET2 { (0..=255u8).collect() } else { (0..=0x7Fu8).collect() };
    for p in sc::PFXS {
        for &c in &codes {
            c19_eval_cell::<D>(run, p, c, &mut downs, &mut ups);
        }
    }
    for (dir, map) in [("make", &downs), ("break", &ups)] {
        for (k, v) in map.iter() {
            if v.len() > 1 {
                let seqs: Vec<String> = v.iter().map(|(p, c)| format!("{}:{:02X}", p.name(), c)).collect();
                run.violation(Violation {
                    sig: format!("{}:dup-{}:{}:{}", D::NAME, dir, k, seqs.join(",")),
                    what: format!("{}: distinct {} sequences {} all denote the key {}", D::NAME, dir, seqs.join(", "), k),
                    case: json!({"kind":"pair_dup","set":D::NAME,"cells": v.iter().map(|(p,c)| json!([p.name(), c])).collect::<Vec<_>>()}),
                });
            }
        }
    }
    run.part(&format!("{}_pairs", D::NAME), json!({"cells": codes.len() * 3, "keys_with_make": downs.len(), "keys_with_break": ups.len()}));

    // the same pairing must hold on a decoder that has already decoded something: after every
    // complete sequence (every event-yielding make and break form, plus some rejected ones),
    // the make and break forms of every cell must decode exactly as on a fresh decoder
    let mut prefixes: Vec<Vec<u8>> = Vec::new();
    for p in sc::PFXS {
        for &c in &codes {
            let (make, brk) = c19_forms::<D>(p, c);
            for seq in [make, brk] {
                if let Ok(o) = last_out::<D>(&seq) {
                    let is_ev = matches!(o, Ok(Some(_)));
                    let is_err_sample = o.is_err() && c % 16 == 2;
                    if is_ev || is_err_sample {
                        prefixes.push(seq);
                    }
                }
            }
        }
    }
    let fresh: Vec<(Pfx, u8, Vec<u8>, Vec<u8>, Option<Vec<ScOut>>, Option<Vec<ScOut>>)> = sc::PFXS
        .iter()
        .flat_map(|p| codes.iter().map(move |c| (*p, *c)))
        .map(|(p, c)| {
            let (m, b) = c19_forms::<D>(p, c);
            let fm = run_bytes::<D>(&m).ok();
            let fb = run_bytes::<D>(&b).ok();
            (p, c, m, b, fm, fb)
        })
        .collect();
    let bad: Vec<(Vec<u8>, Vec<u8>)> = prefixes
        .par_iter()
        .flat_map_iter(|pre| {
            let mut bad = Vec::new();
            for (_, _, m, b, fm, fb) in &fresh {
                for (seq, f) in [(m, fm), (b, fb)] {
                    let mut all = pre.clone();
                    all.extend(seq);
                    let got = run_bytes::<D>(&all).ok().map(|v| v[pre.len()..].to_vec());
                    if got != *f && bad.len() < 3 {
                        bad.push((pre.clone(), seq.clone()));
                    }
                }
            }
            bad.into_iter()
        })
        .collect();
    let n = (prefixes.len() * fresh.len() * 2) as u64;
    run.eval(n);
    run.nontrivial_enum(n);
    for (pre, seq) in bad.iter().take(12) {
        c19_eval_after::<D>(run, pre, seq);
    }
    run.total_violating_cases += bad.len().saturating_sub(12) as u64;
    if let Some(pre) = prefixes.get(prefixes.len() / 3) {
        let (pre, seq) = (pre.clone(), fresh[fresh.len() / 5].3.clone());
        run.sample(|| json!({"layer":"pairing-after-history","set":D::NAME,"history":hex(&pre),"then":hex(&seq),"decoded": run_bytes::<D>(&[pre.clone(), seq.clone()].concat()).ok().map(|v| v.iter().map(sc_out_str).collect::<Vec<_>>())}));
    }
    run.part(&format!("{}_pairs_after_history", D::NAME), json!({"histories": prefixes.len(), "cases": n, "failing(sampled)": bad.len()}));
}

/// one (history, make-or-break form) case of the pairing-after-history layer
pub fn c19_eval_after<D: Dec>(run: &mut Run, pre: &[u8], seq: &[u8]) {
    run.eval(1);
    let mut all = pre.to_vec();
    all.extend(seq);
    let case = json!({"kind":"pair_after","set":D::NAME,"history":pre,"seq":seq,"hex":format!("{} | {}", hex(pre), hex(seq))});
    match (run_bytes::<D>(&all), run_bytes::<D>(seq)) {
        (Ok(a), Ok(f)) => {
            let got = &a[pre.len()..];
            if got != &f[..] {
                let gs: Vec<String> = got.iter().map(sc_out_str).collect();
                let fs: Vec<String> = f.iter().map(sc_out_str).collect();
                run.violation(Violation {
                    sig: format!("{}:pair-after:[{}]:[{}]:fresh={}:got={}", D::NAME, hex(pre).replace(' ', "."), hex(seq).replace(' ', "."), fs.join(","), gs.join(",")),
                    what: format!("{}: after the complete sequence [{}], the sequence [{}] decodes as {} but on a fresh decoder as {} — which key a make/break form denotes depends on what was decoded before", D::NAME, hex(pre), hex(seq), gs.join(","), fs.join(",")),
                    case,
                });
            }
        }
        (Err(p), _) | (_, Err(p)) => run.violation(Violation { sig: format!("{}:pair-after:{}", D::NAME, panic_sig(&p)), what: format!("{} decoder panics on [{}]: {}", D::NAME, hex(&all), p), case }),
    }
}

/// Pairing and injectivity from every reachable *sequence-boundary* state of the extracted
/// graph (initial state + every state entered by an event or error), i.e. "after every
/// history", not only on a fresh decoder. Scan on cloned states; each finding is re-run from
/// scratch through its witness history for the report.
fn c19_per_state<D: Dec>(run: &mut Run) {
    let g = Graph::<D>::extract_with_cap(crate::graph::state_cap(run.tier == Tier::Thorough));
    let n = g.expanded();
    let mut boundary = vec![false; n];
    boundary[0] = true;
    for s in 0..n {
        for b in 0..=255u8 {
            if !g.out_is_none(s, b) {
                if let Step::Ret(_, j) = g.step(s, b) {
                    if j < n {
                        boundary[j] = true;
                    }
                }
            }
        }
    }
    let bstates: Vec<usize> = (0..n).filter(|i| boundary[*i]).collect();
    let codes: Vec<u8> = if D::IS_SET2 { (0..=255u8).collect() } else { (0..=0x7Fu8).collect() };
    let cells: Vec<(Pfx, u8, Vec<u8>, Vec<u8>)> = sc::PFXS.iter().flat_map(|p| codes.iter().map(move |c| (*p, *c))).map(|(p, c)| { let (m, b) = c19_forms::<D>(p, c); (p, c, m, b) }).collect();
    let run_from = |st: &D, bytes: &[u8]| -> Option<ScOut> {
        let mut d = st.clone();
        guard(|| { let mut last = Ok(None); for b in bytes { last = d.advance_state(*b); } last }).ok()
    };
    // (state index, prefix, code, kind)
    let bad: Vec<(usize, Pfx, u8, &'static str)> = bstates
        .par_iter()
        .flat_map_iter(|&s| {
            let st = &g.states[s];
            let mut bad = Vec::new();
            let mut downs: HashMap<u8, (Pfx, u8)> = HashMap::new();
            for (p, c, m, b) in &cells {
                let (om, ob) = (run_from(st, m), run_from(st, b));
                let (Some(om), Some(ob)) = (om, ob) else { bad.push((s, *p, *c, "panic")); continue };
                let mk = ev_of(&om);
                let bk = ev_of(&ob);
                let ok = match mk {
                    Some((k, KeyState::Down)) => {
                        if let Some(prev) = downs.insert(k as u8, (*p, *c)) {
                            let _ = prev;
                            bad.push((s, *p, *c, "dup"));
                        }
                        bk == Some((k, KeyState::Up))
                    }
                    Some((_, KeyState::SingleShot)) => true,
                    Some((_, KeyState::Up)) => false,
                    #[allow(unreachable_patterns)]
                    Some((_, _)) => true,
                    None => !matches!(bk, Some((_, KeyState::Up))) || (matches!(om, Ok(None)) && matches!(ob, Ok(None))),
                } && !matches!(bk, Some((_, KeyState::Down)));
                if !ok && bad.len() < 6 {
                    bad.push((s, *p, *c, "pair"));
                }
            }
            bad.into_iter()
        })
        .collect();
    let cases = (bstates.len() * cells.len()) as u64;
    run.eval(cases);
    run.nontrivial_enum(cases.saturating_sub(cells.len() as u64));
    for (s, p, c, _) in bad.iter().take(16) {
        let hist = g.history(*s);
        let (mut d, mut u) = (BTreeMap::new(), BTreeMap::new());
        c19_eval_cell_after::<D>(run, &hist, *p, *c, &mut d, &mut u);
    }
    // duplicates need the whole table of that state: re-scan through the history for the first
    if let Some((s, _, _, _)) = bad.iter().find(|x| x.3 == "dup") {
        let hist = g.history(*s);
        c19_table_after::<D>(run, &hist);
    }
    run.total_violating_cases += bad.len().saturating_sub(16) as u64;
    run.part(&format!("{}_pairs_in_every_boundary_state", D::NAME), json!({"graph_states": g.states.len(), "graph_closed": g.closed, "boundary_states": bstates.len(), "cases": cases, "failing(sampled)": bad.len()}));
    if !g.closed {
        run.inconclusive.push(format!("{}: state cap reached; the per-state pairing layer covers the {} states explored", D::NAME, n));
    }
}

/// whole make/break table after a history: pairing per cell + injectivity
fn c19_table_after<D: Dec>(run: &mut Run, hist: &[u8]) {
    let mut downs: BTreeMap<String, Vec<(Pfx, u8)>> = BTreeMap::new();
    let mut ups: BTreeMap<String, Vec<(Pfx, u8)>> = BTreeMap::new();
    let codes: Vec<u8> = if D::IS_SET2 { (0..=255u8).collect() } else { (0..=0x7Fu8).collect() };
    for p in sc::PFXS {
        for &c in &codes {
            c19_eval_cell_after::<D>(run, hist, p, c, &mut downs, &mut ups);
        }
    }
    for (dir, map) in [("make", &downs), ("break", &ups)] {
        for (k, v) in map.iter() {
            if v.len() > 1 {
                let seqs: Vec<String> = v.iter().map(|(p, c)| format!("{}:{:02X}", p.name(), c)).collect();
                run.violation(Violation {
                    sig: format!("{}:dup-{}:after=[{}]:{}:{}", D::NAME, dir, hex(hist).replace(' ', "."), k, seqs.join(",")),
                    what: format!("{}: after [{}], distinct {} sequences {} all denote the key {}", D::NAME, hex(hist), dir, seqs.join(", "), k),
                    case: json!({"kind":"pair_table_after","set":D::NAME,"history":hist}),
                });
            }
        }
    }
}

/// Pairing and injectivity after LONG histories: every defined key held for 16 / 40 repeats,
/// typing sessions, real-keyboard traffic, and "a few undefined codes, a key repeated, the bare
/// code byte" grids. The history is fed once, the resulting state is cloned for every cell.
fn c19_after_long_histories<D: Dec>(run: &mut Run) {
    let set2 = D::IS_SET2;
    let enc = |k: KeyCode, st: KeyState| -> Vec<u8> { if set2 { sc::set2_encode(k, st) } else { sc::set1_encode(k, st) }.unwrap_or_default() };
    let mut hists: Vec<Vec<u8>> = Vec::new();
    for (k, s1, s2) in sc::TABLE.iter() {
        if (if set2 { s2 } else { s1 }).is_none() { continue; }
        let mk = enc(*k, KeyState::Down);
        if mk.is_empty() { continue; }
        for n in [16usize, 40, 300] {
            hists.push(mk.iter().copied().cycle().take(mk.len() * n).collect());
        }
        // undefined codes, the key repeated, then its bare code byte once
        for a in [8usize, 40] {
            for b in [5usize, 32] {
                let mut v = vec![0x02u8; a];
                for _ in 0..b { v.extend(&mk); }
                v.push(*mk.last().unwrap());
                // make sure the history ends at a sequence boundary
                hists.push(v);
            }
        }
    }
    let (fam, _) = deep_stream_families(set2, false);
    // the long sessions / real-traffic members of the byte families (those longer than 2000 bytes
    // or containing fake shifts), a bounded sample
    for v in fam.iter().filter(|v| v.len() > 3000).step_by(7).take(120) {
        hists.push(v.clone());
    }
    let codes: Vec<u8> = if set2 { (0..=255u8).collect() } else { (0..=0x7Fu8).collect() };
    let cells: Vec<(Pfx, u8, Vec<u8>, Vec<u8>)> = sc::PFXS.iter().flat_map(|p| codes.iter().map(move |c| (*p, *c))).map(|(p, c)| { let (m, b) = c19_forms::<D>(p, c); (p, c, m, b) }).collect();
    let bad: Vec<(usize, Pfx, u8, &'static str)> = hists
        .par_iter()
        .enumerate()
        .flat_map_iter(|(hi, h)| {
            let mut bad = Vec::new();
            let st = guard(|| {
                let mut d = D::fresh();
                let mut last = Ok(None);
                for b in h { last = d.advance_state(*b); }
                (d, last)
            });
            let Ok((st, last)) = st else { return vec![(hi, Pfx::None, 0u8, "panic")].into_iter() };
            if matches!(last, Ok(None)) && !h.is_empty() {
                return bad.into_iter(); // history does not end at a sequence boundary
            }
            let run_from = |bytes: &[u8]| -> Option<ScOut> {
                let mut d = st.clone();
                guard(|| { let mut l = Ok(None); for b in bytes { l = d.advance_state(*b); } l }).ok()
            };
            let mut downs: HashMap<u8, (Pfx, u8)> = HashMap::new();
            for (p, c, m, b) in &cells {
                let (Some(om), Some(ob)) = (run_from(m), run_from(b)) else { bad.push((hi, *p, *c, "panic")); continue };
                let (mk, bk) = (ev_of(&om), ev_of(&ob));
                let ok = match mk {
                    Some((k, KeyState::Down)) => {
                        if downs.insert(k as u8, (*p, *c)).is_some() && bad.len() < 4 { bad.push((hi, *p, *c, "dup")); }
                        bk == Some((k, KeyState::Up))
                    }
                    Some((_, KeyState::SingleShot)) => true,
                    Some((_, KeyState::Up)) => false,
                    #[allow(unreachable_patterns)]
                    Some((_, _)) => true,
                    None => !matches!(bk, Some((_, KeyState::Up))),
                } && !matches!(bk, Some((_, KeyState::Down)));
                if !ok && bad.len() < 4 { bad.push((hi, *p, *c, "pair")); }
            }
            bad.into_iter()
        })
        .collect();
    let cases = (hists.len() * cells.len()) as u64;
    run.eval(cases);
    run.nontrivial_enum(cases);
    for (hi, p, c, kind) in bad.iter().take(8) {
        if *kind == "dup" {
            c19_table_after::<D>(run, &hists[*hi]);
        } else {
            let (mut d, mut u) = (BTreeMap::new(), BTreeMap::new());
            c19_eval_cell_after::<D>(run, &hists[*hi], *p, *c, &mut d, &mut u);
        }
    }
    run.total_violating_cases += bad.len().saturating_sub(8) as u64;
    run.part(&format!("{}_pairs_after_long_histories", D::NAME), json!({"histories": hists.len(), "cases": cases, "failing(sampled)": bad.len()}));
}

pub fn c19(run: &mut Run) {
    run.rule = "Exhaustive, no reference table: for both decoders x 3 prefix contexts x every code byte (256 for Set 2, 128 for Set 1) the make form ([prefix] code) and the break form (Set 2: [prefix] F0 code; Set 1: [prefix] code|0x80) are fed to fresh decoders. Oracle: make yields Down(K) <=> break yields Up(K); no break names a key without a make; the maps sequence -> key are injective on makes and on breaks; one-shot makes are exempt. The same forms are then decoded after every complete sequence (every event-yielding make and break form plus sampled rejected ones) and must decode exactly as on a fresh decoder; and the pairing/injectivity oracle is applied from every reachable sequence-boundary state of the extracted decoder graph (initial state + every state entered by an event or error, up to the state cap), each finding re-run through its witness history; and after long histories (every key held 16/40/300 repeats, undefined codes + repeated key + bare code byte, long typing sessions and real-keyboard traffic). Non-trivial = a (set, prefix, code) cell for which make or break yields an event; distinct by that triple.".into();
    run.assumptions = vec!["decoders are deterministic; each cell is an independent execution from new()".into()];
    c19_for::<ScancodeSet2>(run);
    c19_for::<ScancodeSet1>(run);
    c19_per_state::<ScancodeSet2>(run);
    c19_per_state::<ScancodeSet1>(run);
    c19_after_long_histories::<ScancodeSet2>(run);
    c19_after_long_histories::<ScancodeSet1>(run);
    run.exhaustive = true;
}

// ---------------------------------------------------------------------------------------
// C13 — Set 1 vs Set 2 under the i8042 translation
// ---------------------------------------------------------------------------------------
fn ev_of(o: &ScOut) -> Option<(KeyCode, KeyState)> {
    match o {
        Ok(Some(e)) => Some((e.code, e.state)),
        _ => None,
    }
}

fn c13_seqs(p: Pfx, c2: u8, brk: bool) -> Option<(Vec<u8>, Vec<u8>)> {
    let t = sc::xlat_code(c2)?;
    if brk && matches!(t | 0x80, 0xE0 | 0xE1) {
        // the break of Set 2 codes 47 / 4F translates to the byte E0 / E1, which Set 1 reads
        // as a prefix: not a key either set can express, and not a complete Set 1 sequence
        return None;
    }
    let mut s2 = Vec::new();
    let mut s1 = Vec::new();
    if let Some(b) = p.byte() {
        s2.push(b);
        s1.push(b);
    }
    if brk {
        s2.push(0xF0);
    }
    s2.push(c2);
    s1.push(if brk { t | 0x80 } else { t });
    Some((s2, s1))
}

/// Keys a decoder can express at all: every key some (prefix, code) make sequence decodes to.
fn expressible<D: Dec>() -> std::collections::BTreeSet<u8> {
    let mut set = std::collections::BTreeSet::new();
    let codes: Vec<u8> = if D::IS_SET2 { (0..=255u8).collect() } else { (0..=0x7Fu8).collect() };
    for p in sc::PFXS {
        for &c in &codes {
            let (m, _) = c19_forms::<D>(p, c);
            if let Ok(o) = last_out::<D>(&m) {
                if let Some((k, KeyState::Down)) = ev_of(&o) {
                    set.insert(k as u8);
                }
            }
        }
    }
    set
}

pub fn c13_eval_forward(run: &mut Run, p: Pfx, c2: u8, brk: bool) {
    let Some((s2, s1)) = c13_seqs(p, c2, brk) else { return };
    debug_assert_eq!(sc::xlat_stream(&s2).as_deref(), Some(&s1[..]));
    run.eval(1);
    let case = json!({"kind":"xlat_forward","prefix":p.name(),"set2_code":c2,"break":brk,"set2":hex(&s2),"set1":hex(&s1)});
    let (o2, o1) = match (last_out::<ScancodeSet2>(&s2), last_out::<ScancodeSet1>(&s1)) {
        (Ok(a), Ok(b)) => (a, b),
        (Err(e), _) | (_, Err(e)) => {
            run.violation(Violation { sig: format!("xlat:fwd:{}:{:02X}:{}:{}", p.name(), c2, brk, panic_sig(&e)), what: format!("panic decoding [{}] / [{}]: {}", hex(&s2), hex(&s1), e), case });
            return;
        }
    };
    if ev_of(&o2).is_some() || ev_of(&o1).is_some() {
        run.nontrivial_fp(fp(&("fwd", p.name(), c2, brk)));
    }
    if run.wants_sample() && ev_of(&o2).is_some() {
        let (a, b) = (o2.clone(), o1.clone());
        run.sample(|| json!({"direction":"forward","set2_bytes":hex(&s2),"set2_out":sc_out_str(&a),"i8042_set1_bytes":hex(&s1),"set1_out":sc_out_str(&b)}));
    }
    if let Some((k, st)) = ev_of(&o2) {
        // the property speaks of keys BOTH sets can express: if Set 1 decodes nothing here and
        // cannot express this key at all, there is nothing to compare
        let set1_silent_and_key_unknown_to_set1 = ev_of(&o1).is_none() && !expressible::<ScancodeSet1>().contains(&(k as u8));
        if ev_of(&o1) != Some((k, st)) && !set1_silent_and_key_unknown_to_set1 {
            run.violation(Violation {
                sig: format!("xlat:fwd:{}:s2={:02X}:{}:set2={}:set1={}", p.name(), c2, if brk { "break" } else { "make" }, sc_out_str(&o2), sc_out_str(&o1)),
                what: format!("Set 2 [{}] decodes to {} but its i8042 translation, Set 1 [{}], decodes to {}", hex(&s2), sc_out_str(&o2), hex(&s1), sc_out_str(&o1)),
                case,
            });
        }
    }
}

pub fn c13_eval_converse(run: &mut Run, p: Pfx, c1: u8, brk: bool) {
    let mut s1 = Vec::new();
    if let Some(b) = p.byte() {
        s1.push(b);
    }
    s1.push(if brk { c1 | 0x80 } else { c1 });
    run.eval(1);
    let case = json!({"kind":"xlat_converse","prefix":p.name(),"set1_code":c1,"break":brk,"set1":hex(&s1)});
    let o1 = match last_out::<ScancodeSet1>(&s1) {
        Ok(o) => o,
        Err(e) => {
            run.violation(Violation { sig: format!("xlat:conv:{}:{:02X}:{}:{}", p.name(), c1, brk, panic_sig(&e)), what: format!("panic decoding Set 1 [{}]: {}", hex(&s1), e), case });
            return;
        }
    };
    let Some((k, st)) = ev_of(&o1) else { return };
    let pre: Vec<u8> = sc::xlat_domain().into_iter().filter(|c| sc::xlat_code(*c) == Some(c1)).collect();
    if pre.is_empty() {
        return; // Set 2 cannot express it through the controller: outside "keys both sets can express"
    }
    run.nontrivial_fp(fp(&("conv", p.name(), c1, brk)));
    let mut same = false;
    let mut outs = Vec::new();
    for c2 in &pre {
        let Some((s2, _)) = c13_seqs(p, *c2, brk) else { continue };
        let o2 = last_out::<ScancodeSet2>(&s2).unwrap_or(Ok(None));
        outs.push(format!("[{}]->{}", hex(&s2), sc_out_str(&o2)));
        match ev_of(&o2) {
            Some(e2) if e2 == (k, st) => same = true,
            Some(_) => {
                run.violation(Violation {
                    sig: format!("xlat:conv:{}:s1={:02X}:{}:set1={}:set2[{:02X}]={}", p.name(), c1, if brk { "break" } else { "make" }, sc_out_str(&o1), c2, sc_out_str(&o2)),
                    what: format!("Set 1 [{}] decodes to {} but the Set 2 sequence [{}] that the i8042 translates into it decodes to {}", hex(&s1), sc_out_str(&o1), hex(&s2), sc_out_str(&o2)),
                    case: case.clone(),
                });
            }
            None => {}
        }
    }
    // a key only Set 1 can express is outside 'keys both sets can express'
    if !same && expressible::<ScancodeSet2>().contains(&(k as u8)) {
        run.violation(Violation {
            sig: format!("xlat:conv:{}:s1={:02X}:{}:set1={}:no-set2-preimage-agrees", p.name(), c1, if brk { "break" } else { "make" }, sc_out_str(&o1)),
            what: format!("Set 1 [{}] decodes to {} but none of the Set 2 sequences the i8042 translates into it does: {}", hex(&s1), sc_out_str(&o1), outs.join(", ")),
            case,
        });
    }
}

/// End-to-end: a typing script (key events) rendered to Set 2 bytes by the model encoder,
/// translated by the i8042 model, both streams fed to full Keyboards with the same layout;
/// key events, modifiers and decoded characters must be identical.
#[derive(Clone, Debug)]
pub struct ScriptStep {
    pub ti: u16,
    pub up: bool,
}

pub fn c13_script_bytes(script: &[ScriptStep]) -> (Vec<u8>, Vec<(KeyCode, KeyState)>) {
    // keys expressible in both sets through the controller
    let keys: Vec<KeyCode> = sc::TABLE
        .iter()
        .filter(|(_, s1, s2)| s1.is_some() && s2.is_some())
        .filter(|(_, _, s2)| sc::xlat_code(s2.unwrap().1).is_some())
        .map(|(k, _, _)| *k)
        .collect();
    let mut bytes = Vec::new();
    let mut evs = Vec::new();
    for s in script {
        let k = keys[crate::prop::idx(s.ti, keys.len())];
        let st = if s.up { KeyState::Up } else { KeyState::Down };
        if let Some(b) = sc::set2_encode(k, st) {
            bytes.extend(b);
            evs.push((k, st));
        }
    }
    (bytes, evs)
}

fn c13_e2e_eval(layout: usize, s2: &[u8]) -> Result<Option<(usize, String, String)>, String> {
    let Some(s1) = sc::xlat_stream(s2) else { return Ok(None) };
    guard(|| {
      // the hardware delivers frames: the same comparison with every byte handed over as its
      // PS/2 word (Keyboard::add_word) instead of add_byte
      for as_frames in [false, true] {
        let mut k2 = Keyboard::new(ScancodeSet2::new(), any_layout(layout), HandleControl::MapLettersToUnicode);
        let mut k1 = Keyboard::new(ScancodeSet1::new(), any_layout(layout), HandleControl::MapLettersToUnicode);
        let mut ev2 = Vec::new();
        let mut ev1 = Vec::new();
        for b in s2 {
            let r = if as_frames { k2.add_word(crate::model::frame::encode(*b)) } else { k2.add_byte(*b) };
            if let Ok(Some(e)) = r {
                let d = k2.process_keyevent(e.clone());
                ev2.push((e, d, mod_bits(k2.get_modifiers())));
            }
        }
        for b in &s1 {
            let r = if as_frames { k1.add_word(crate::model::frame::encode(*b)) } else { k1.add_byte(*b) };
            if let Ok(Some(e)) = r {
                let d = k1.process_keyevent(e.clone());
                ev1.push((e, d, mod_bits(k1.get_modifiers())));
            }
        }
        let via = if as_frames { " (bytes delivered as PS/2 words)" } else { "" };
        for i in 0..ev2.len().max(ev1.len()) {
            let a = ev2.get(i);
            let b = ev1.get(i);
            if a != b {
                let f = |x: Option<&(KeyEvent, Option<DecodedKey>, u16)>| match x {
                    None => "nothing".to_string(),
                    Some((e, d, m)) => format!("{}({:?})->{}/mods={}", state_name(e.state), e.code, odk_str(d), mods_str(*m)),
                };
                return Some((
                    i,
                    format!("xlat:e2e:{}:event#{}:set2={}:set1={}", LAYOUT_NAMES[layout], i, f(a), f(b)),
                    format!("layout {}: Set 2 stream [{}] and its i8042 translation [{}]{} diverge at event #{}: Set 2 gives {}, Set 1 gives {}", LAYOUT_NAMES[layout], hex(s2), hex(&s1), via, i, f(a), f(b)),
                ));
            }
        }
      }
      None
    })
}

pub fn c13_eval_e2e(run: &mut Run, layout: usize, s2: &[u8]) {
    run.eval(1);
    let case = json!({"kind":"xlat_e2e","layout":LAYOUT_NAMES[layout],"set2_bytes":s2,"hex":hex(s2)});
    match c13_e2e_eval(layout, s2) {
        Err(p) => run.violation(Violation { sig: format!("xlat:e2e:{}", panic_sig(&p)), what: format!("panic in end-to-end run on [{}]: {}", hex(s2), p), case }),
        Ok(Some((_, sig, what))) => {
            if run.is_known_e2e(&sig) {
                run.tolerated_known += 1;
            } else {
                run.violation(Violation { sig, what, case })
            }
        }
        Ok(None) => {}
    }
}

impl Run {
    /// end-to-end divergences caused by a listed (cell-level) known finding are tolerated by
    /// construction: the scripts only use keys whose forward cell is not a known finding.
    fn is_known_e2e(&self, _sig: &str) -> bool {
        false
    }
}

pub fn c13(run: &mut Run) {
    run.rule = "Exhaustive forward: 3 prefix contexts x Set 2 codes {01..7F, 83, 84} x {make, break}, each Set 2 sequence and the Set 1 sequence the i8042 model derives from it (prefix kept, F0+code -> code|0x80 through the standard 8042 table) fed to fresh decoders; if Set 2 yields an event Set 1 must yield the identical event. Exhaustive converse: every Set 1 (prefix, code, make/break) that yields an event is compared with all its Set 2 pre-images (none may yield a different event, at least one must yield the same). Exhaustive ordered pairs of translatable cells (whatever the first sequence was, the second must still decode to the same event in both sets). Product exploration: BFS over all reachable pairs (Set 2 decoder state, Set 1 decoder state) of the extracted graphs under complete translatable cells, every agreeing cell re-judged in every pair. End-to-end: random typing scripts (keys, modifiers, and raw defined-or-undefined translatable cells as line noise) rendered to Set 2 bytes, translated, fed to Keyboard<AnyLayout, Set2/Set1> for every layout; events, modifiers and decoded characters must match. Non-trivial = cell defined in at least one set (distinct by (direction, prefix, code, make/break)); script with a modifier held (distinct by byte string + layout).".into();
    run.assumptions = vec![
        "i8042 table = the standard 8042 Set2->Set1 table (AT technical reference / Brouwer / Linux atkbd), transcribed in model/sc.rs; validated to be a permutation of 01..7F".into(),
        "Set 2 code 84 -> Set 1 54 and 02 -> 41 are tolerated pre-images when Set 2 does not define them (C01 requires 84 unknown because the README gives SysRq = 7F)".into(),
    ];
    // sanity of the oracle table itself
    let mut img: Vec<u8> = sc::XLAT[1..].to_vec();
    img.sort();
    img.dedup();
    assert_eq!(img.len(), 127, "harness: i8042 table is not a permutation");

    for p in sc::PFXS {
        for c2 in sc::xlat_domain() {
            for brk in [false, true] {
                c13_eval_forward(run, p, c2, brk);
            }
        }
    }
    for p in sc::PFXS {
        for c1 in 0..=0x7Fu8 {
            for brk in [false, true] {
                if p == Pfx::None && brk && (c1 == 0x60 || c1 == 0x61) {
                    continue; // E0 / E1 are prefixes, not codes
                }
                c13_eval_converse(run, p, c1, brk);
            }
        }
    }
    run.part("cells", json!({"forward_cells": 3 * sc::xlat_domain().len() * 2, "converse_cells": 3 * 128 * 2 - 2}));
    run.exhaustive = true;

    // all ordered PAIRS of translatable cells: whatever the first sequence was (defined in both
    // sets, in one, or in none), the second must still decode consistently in both sets.
    // A pair is only judged if both of its cells agree when decoded alone (cell-level
    // disagreements are reported above, once).
    let cells: Vec<(Pfx, u8, bool)> = sc::PFXS.iter().flat_map(|p| sc::xlat_domain().into_iter().flat_map(move |c| [false, true].into_iter().map(move |b| (*p, c, b)))).filter(|(p, c, b)| c13_seqs(*p, *c, *b).is_some()).collect();
    let alone: Vec<(Vec<u8>, Vec<u8>, Option<(KeyCode, KeyState)>, Option<(KeyCode, KeyState)>)> = cells
        .iter()
        .map(|(p, c, b)| {
            let (s2, s1) = c13_seqs(*p, *c, *b).unwrap();
            let o2 = last_out::<ScancodeSet2>(&s2).ok().and_then(|o| ev_of(&o));
            let o1 = last_out::<ScancodeSet1>(&s1).ok().and_then(|o| ev_of(&o));
            (s2, s1, o2, o1)
        })
        .collect();
    let bad: Vec<(usize, usize)> = (0..cells.len())
        .into_par_iter()
        .flat_map_iter(|i| {
            let mut bad = Vec::new();
            if alone[i].2 == alone[i].3 {
                for j in 0..cells.len() {
                    if alone[j].2 != alone[j].3 {
                        continue;
                    }
                    let r2 = run_bytes::<ScancodeSet2>(&[alone[i].0.clone(), alone[j].0.clone()].concat());
                    let r1 = run_bytes::<ScancodeSet1>(&[alone[i].1.clone(), alone[j].1.clone()].concat());
                    let e2: Option<Vec<_>> = r2.ok().map(|v| v.iter().filter_map(ev_of).collect());
                    let e1: Option<Vec<_>> = r1.ok().map(|v| v.iter().filter_map(ev_of).collect());
                    if e2 != e1 && bad.len() < 3 {
                        bad.push((i, j));
                    }
                }
            }
            bad.into_iter()
        })
        .collect();
    let judged = alone.iter().filter(|a| a.2 == a.3).count() as u64;
    run.eval(judged * judged);
    run.nontrivial_enum(judged * judged);
    for (i, j) in bad.iter().take(12) {
        c13_eval_e2e(run, L_US, &[alone[*i].0.clone(), alone[*j].0.clone()].concat());
    }
    run.total_violating_cases += bad.len().saturating_sub(12) as u64;
    run.part("ordered_cell_pairs", json!({"cells": cells.len(), "cells_agreeing_alone": judged, "pairs_judged": judged * judged, "failing(sampled)": bad.len()}));

    // Product exploration: BFS over reachable PAIRS (Set 2 decoder state, Set 1 decoder state)
    // under complete translatable cells, on the extracted graphs: every pair any history of
    // such cells can reach is visited, and in each pair every cell that agrees on fresh
    // decoders must still agree. (On a tree without hidden decoder state there is one pair.)
    {
        let g2 = Graph::<ScancodeSet2>::extract_with_cap(crate::graph::state_cap(run.tier == Tier::Thorough));
        let g1 = Graph::<ScancodeSet1>::extract_with_cap(crate::graph::state_cap(run.tier == Tier::Thorough));
        let pair_cap: usize = run.tier.pick(50_000, 400_000);
        let walk2 = |mut st: usize, bytes: &[u8]| -> Option<(usize, Vec<(KeyCode, KeyState)>)> {
            let mut evs = Vec::new();
            for b in bytes {
                if st >= g2.expanded() { return None; }
                match g2.step(st, *b) { Step::Ret(o, j) => { if let Some(e) = ev_of(&o) { evs.push(e); } st = j; } Step::Panic(_) => return None }
            }
            Some((st, evs))
        };
        let walk1 = |mut st: usize, bytes: &[u8]| -> Option<(usize, Vec<(KeyCode, KeyState)>)> {
            let mut evs = Vec::new();
            for b in bytes {
                if st >= g1.expanded() { return None; }
                match g1.step(st, *b) { Step::Ret(o, j) => { if let Some(e) = ev_of(&o) { evs.push(e); } st = j; } Step::Panic(_) => return None }
            }
            Some((st, evs))
        };
        let judged: Vec<usize> = (0..cells.len()).filter(|i| alone[*i].2 == alone[*i].3).collect();
        let mut index: HashMap<(usize, usize), usize> = HashMap::new();
        let mut pairs: Vec<(usize, usize, Option<(usize, usize)>)> = vec![(0, 0, None)]; // (s2, s1, parent (pair, cell))
        index.insert((0, 0), 0);
        let mut head = 0;
        let mut bad: Vec<(usize, usize)> = Vec::new();
        let mut steps = 0u64;
        while head < pairs.len() {
            let (s2, s1, _) = pairs[head];
            for &ci in &judged {
                steps += 1;
                let (Some((n2, e2)), Some((n1, e1))) = (walk2(s2, &alone[ci].0), walk1(s1, &alone[ci].1)) else { continue };
                if e2 != e1 {
                    if bad.len() < 8 { bad.push((head, ci)); }
                    continue;
                }
                if !index.contains_key(&(n2, n1)) && pairs.len() < pair_cap {
                    index.insert((n2, n1), pairs.len());
                    pairs.push((n2, n1, Some((head, ci))));
                }
            }
            head += 1;
        }
        run.eval(steps);
        run.nontrivial_enum(steps.saturating_sub(judged.len() as u64));
        for (pi, ci) in &bad {
            // Set 2 byte history of the pair, then the cell
            let mut chain = vec![*ci];
            let mut cur = *pi;
            while let Some((pp, pc)) = pairs[cur].2 { chain.push(pc); cur = pp; }
            chain.reverse();
            let bytes: Vec<u8> = chain.iter().flat_map(|c| alone[*c].0.iter().copied()).collect();
            c13_eval_e2e(run, L_US, &bytes);
        }
        run.part("reachable_decoder_state_pairs", json!({"set2_graph_states": g2.states.len(), "set1_graph_states": g1.states.len(), "graphs_closed": [g2.closed, g1.closed], "pairs_visited": pairs.len(), "pair_cap": pair_cap, "cell_steps": steps, "failing(sampled)": bad.len()}));
    }

    // Deep-history families that consist of well-formed translatable cells only (key held for
    // hundreds of repeats, long typing sessions, typing with modifiers held, real-keyboard traffic
    // with fake shifts, taps followed by typematic) through both decoders under the translation
    {
        let (fam, _) = deep_stream_families(true, run.tier == Tier::Thorough);
        let mut extra: Vec<Vec<u8>> = Vec::new();
        // taps of one key n times, then the key twice (typematic), for n around typical thresholds
        for k in [KeyCode::A, KeyCode::ArrowUp, KeyCode::LShift] {
            let (mk, bk) = (sc::set2_encode(k, KeyState::Down).unwrap(), sc::set2_encode(k, KeyState::Up).unwrap());
            for n in [100usize, 500, 900, 1500, 3000] {
                let mut v = Vec::new();
                for _ in 0..n { v.extend(&mk); v.extend(&bk); }
                v.extend(&mk); v.extend(&mk); v.extend(&bk);
                // an extended key pressed, its non-extended twin released
                v.extend([0xE0, 0x75, 0xF0, 0x75, 0xE0, 0xF0, 0x75, 0xE0, 0x14, 0xF0, 0x14]);
                extra.push(v);
            }
        }
        let cands: Vec<&Vec<u8>> = fam.iter().chain(extra.iter()).collect();
        let judged: Vec<(&Vec<u8>, Vec<u8>)> = cands.into_iter().filter_map(|v| {
            let s1 = sc::xlat_stream(v)?;
            // well-formed only: no prefix in code position, no doubled F0
            let mut c = Ctx2::Start;
            for b in v.iter() {
                let (o, n) = sc::set2_step(c, *b);
                if matches!(o, Out::Unknown) && matches!(*b, 0xE0 | 0xE1 | 0xF0) { return None; }
                c = n;
            }
            if c != Ctx2::Start { return None; }
            Some((v, s1))
        }).collect();
        let bad: Vec<usize> = judged.par_iter().enumerate().filter_map(|(i, (s2, s1))| {
            let e2: Option<Vec<_>> = run_bytes::<ScancodeSet2>(s2).ok().map(|v| v.iter().filter_map(ev_of).collect());
            let e1: Option<Vec<_>> = run_bytes::<ScancodeSet1>(s1).ok().map(|v| v.iter().filter_map(ev_of).collect());
            if e2 != e1 { Some(i) } else { None }
        }).collect();
        run.eval(judged.len() as u64);
        run.nontrivial_enum(judged.len() as u64);
        let mut reported = 0;
        for i in &bad {
            // streams that contain a cell which already disagrees alone (the known finding) are
            // excluded here exactly as in the pair layers
            let s2 = judged[*i].0;
            let mut c = Ctx2::Start; let mut seq: Vec<u8> = Vec::new(); let mut has_disagreeing_cell = false;
            for b in s2.iter() {
                seq.push(*b);
                let (o, n) = sc::set2_step(c, *b);
                if !matches!(o, Out::None) {
                    if let Some(s1c) = sc::xlat_stream(&seq) {
                        let a = last_out::<ScancodeSet2>(&seq).ok().and_then(|o| ev_of(&o));
                        let bb = last_out::<ScancodeSet1>(&s1c).ok().and_then(|o| ev_of(&o));
                        if a != bb { has_disagreeing_cell = true; break; }
                    }
                    seq.clear();
                }
                c = n;
            }
            if has_disagreeing_cell { continue; }
            if reported < 6 { c13_eval_e2e(run, L_US, s2); reported += 1; }
        }
        run.part("deep_history_families(translatable streams)", json!({"streams": judged.len(), "diverging": bad.len(), "reported": reported}));
    }

    // end-to-end scripts; keys whose forward cell is a listed known finding are excluded by
    // construction (counted), so the search continues behind the finding
    let known_keys: BTreeSet<String> = {
        let mut s = BTreeSet::new();
        for (k, _, s2) in sc::TABLE.iter() {
            if let Some((p, c)) = s2 {
                for brk in [false, true] {
                    if let Some((b2, b1)) = c13_seqs(*p, *c, brk) {
                        let o2 = last_out::<ScancodeSet2>(&b2).unwrap_or(Ok(None));
                        let o1 = last_out::<ScancodeSet1>(&b1).unwrap_or(Ok(None));
                        let sig = format!("xlat:fwd:{}:s2={:02X}:{}:set2={}:set1={}", p.name(), c, if brk { "break" } else { "make" }, sc_out_str(&o2), sc_out_str(&o1));
                        if run.is_known(&sig) {
                            s.insert(key_name(*k));
                        }
                    }
                }
            }
        }
        s
    };
    let n = run.tier.pick(3_000u32, 300_000u32);
    let stats = RefCell::new((0u64, 0u64, Vec::<u64>::new(), 0u64, Vec::<Value>::new()));
    let strat = (
        0usize..N_LAYOUTS,
        proptest::collection::vec((proptest::prelude::any::<u16>(), proptest::prelude::any::<bool>(), proptest::prelude::any::<u8>()), 0..40),
    );
    let mod_keys = [KeyCode::LShift, KeyCode::RShift, KeyCode::LControl, KeyCode::RControl, KeyCode::LAlt, KeyCode::RAltGr, KeyCode::CapsLock, KeyCode::NumpadLock];
    let build = |steps: &[(u16, bool, u8)]| -> (Vec<u8>, bool, u64) {
        let keys: Vec<KeyCode> = sc::TABLE
            .iter()
            .filter(|(_, s1, s2)| s1.is_some() && s2.is_some())
            .filter(|(_, _, s2)| sc::xlat_code(s2.unwrap().1).is_some())
            .map(|(k, _, _)| *k)
            .collect();
        let mut bytes = Vec::new();
        let mut any_mod = false;
        let mut excluded = 0u64;
        for (ti, up, m) in steps {
            if *m >= 215 {
                // a raw translatable cell, defined or not (line noise both sets must shrug off
                // identically); cells that disagree when decoded alone are excluded (counted)
                let dom = sc::xlat_domain();
                let c = dom[crate::prop::idx(*ti, dom.len())];
                let p = sc::PFXS[(*m as usize) % 3];
                if let Some((s2, s1)) = c13_seqs(p, c, *up) {
                    let o2 = last_out::<ScancodeSet2>(&s2).ok().and_then(|o| ev_of(&o));
                    let o1 = last_out::<ScancodeSet1>(&s1).ok().and_then(|o| ev_of(&o));
                    if o2 == o1 {
                        bytes.extend(s2);
                    } else {
                        excluded += 1;
                    }
                }
                continue;
            }
            // 35%: a modifier key, else any key
            let k = if *m < 90 { mod_keys[(*m as usize) % mod_keys.len()] } else { keys[crate::prop::idx(*ti, keys.len())] };
            if known_keys.contains(&key_name(k)) {
                excluded += 1;
                continue;
            }
            if *m < 90 && !*up {
                any_mod = true;
            }
            let st = if *up { KeyState::Up } else { KeyState::Down };
            if let Some(b) = sc::set2_encode(k, st) {
                bytes.extend(b);
            }
        }
        (bytes, any_mod, excluded)
    };
    let outcome = run_prop(run.seed, 0xC13, n, strat, |(layout, steps), counting| {
        let (bytes, any_mod, excluded) = build(steps);
        let r = c13_e2e_eval(*layout, &bytes);
        if counting {
            let mut st = stats.borrow_mut();
            st.0 += 1;
            st.1 += bytes.len() as u64;
            st.3 += excluded;
            if any_mod && bytes.len() > 4 {
                st.2.push(fp(&(layout, &bytes)));
            }
            if st.4.len() < 2 && bytes.len() > 10 {
                st.4.push(json!({"direction":"end-to-end","layout":LAYOUT_NAMES[*layout],"set2_bytes":hex(&bytes),"i8042_set1_bytes":sc::xlat_stream(&bytes).map(|b| hex(&b))}));
            }
        }
        match r {
            Ok(None) => Ok(()),
            Ok(Some((_, sig, _))) => Err(sig),
            Err(p) => Err(p),
        }
    });
    let st = stats.into_inner();
    run.eval(st.0);
    for f in &st.2 {
        run.nontrivial_fp(*f);
    }
    for s in st.4 {
        run.sample(|| s);
    }
    run.part("end_to_end_scripts", json!({"cases": st.0, "set2_bytes": st.1, "with_modifier_held": st.2.len(), "steps_excluded_because_key_is_a_known_finding": st.3, "keys_excluded": known_keys.iter().collect::<Vec<_>>()}));
    if let Some(((layout, steps), _)) = outcome.failure {
        let (bytes, _, _) = build(&steps);
        c13_eval_e2e(run, layout, &bytes);
    }
    let _ = HashMap::<u8, u8>::new();
}

// ---------------------------------------------------------------------------------------
// Replay dispatch for this module
// ---------------------------------------------------------------------------------------
fn bytes_of(v: &Value) -> Vec<u8> {
    v.as_array().map(|a| a.iter().filter_map(|x| x.as_u64()).map(|x| x as u8).collect()).unwrap_or_default()
}
fn pfx_by_name(s: &str) -> Pfx {
    match s {
        "E0" => Pfx::E0,
        "E1" => Pfx::E1,
        _ => Pfx::None,
    }
}

pub fn replay(run: &mut Run, case: &Value) -> bool {
    let kind = case["kind"].as_str().unwrap_or("");
    let set2 = case["set"].as_str() == Some("set2");
    match kind {
        "sc_stream" => {
            let b = bytes_of(&case["bytes"]);
            if set2 { eval_stream::<M2>(run, &b) } else { eval_stream::<M1>(run, &b) }
        }
        "resync_stream" => {
            let b = bytes_of(&case["bytes"]);
            if set2 { c07_eval_stream::<ScancodeSet2>(run, &b) } else { c07_eval_stream::<ScancodeSet1>(run, &b) }
        }
        "resync_state" => {
            let b = bytes_of(&case["bytes"]);
            if set2 { c07_replay_state::<ScancodeSet2>(run, &b) } else { c07_replay_state::<ScancodeSet1>(run, &b) }
        }
        "pair_cell" => {
            let p = pfx_by_name(case["prefix"].as_str().unwrap_or(""));
            let c = case["code"].as_u64().unwrap_or(0) as u8;
            let h = bytes_of(&case["history"]);
            let (mut d, mut u) = (BTreeMap::new(), BTreeMap::new());
            if set2 { c19_eval_cell_after::<ScancodeSet2>(run, &h, p, c, &mut d, &mut u) } else { c19_eval_cell_after::<ScancodeSet1>(run, &h, p, c, &mut d, &mut u) }
        }
        "pair_table_after" => {
            let h = bytes_of(&case["history"]);
            if set2 { c19_table_after::<ScancodeSet2>(run, &h) } else { c19_table_after::<ScancodeSet1>(run, &h) }
        }
        "pair_after" => {
            let (h, q) = (bytes_of(&case["history"]), bytes_of(&case["seq"]));
            if set2 { c19_eval_after::<ScancodeSet2>(run, &h, &q) } else { c19_eval_after::<ScancodeSet1>(run, &h, &q) }
        }
        "pair_dup" => {
            // re-run the whole (cheap) table scan
            if set2 { c19_for::<ScancodeSet2>(run) } else { c19_for::<ScancodeSet1>(run) }
        }
        "xlat_forward" => c13_eval_forward(run, pfx_by_name(case["prefix"].as_str().unwrap_or("")), case["set2_code"].as_u64().unwrap_or(0) as u8, case["break"].as_bool().unwrap_or(false)),
        "xlat_converse" => c13_eval_converse(run, pfx_by_name(case["prefix"].as_str().unwrap_or("")), case["set1_code"].as_u64().unwrap_or(0) as u8, case["break"].as_bool().unwrap_or(false)),
        "xlat_e2e" => {
            let l = layout_by_name(case["layout"].as_str().unwrap_or("")).unwrap_or(0);
            c13_eval_e2e(run, l, &bytes_of(&case["set2_bytes"]));
        }
        _ => return false,
    }
    true
}

pub fn tier_note(_t: Tier) {}
