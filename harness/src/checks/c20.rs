//! C20 — const constructors and Send + Sync. Generate-and-check with the compiler as the
//! oracle: a `#![no_std]` probe crate is generated from a grid of (constructor / accessor /
//! auto-trait) x (10 layouts + AnyLayout) x (Set 1, Set 2); each grid cell is one module in its
//! own file, so a rustc diagnostic names the failing cell. A small std binary in the same
//! crate compares const-evaluated tables with the same expressions evaluated at run time.
use crate::report::{fp, Run, Violation};
use crate::universe::*;
use serde_json::{json, Value};
use std::collections::{BTreeMap, BTreeSet};
use std::path::{Path, PathBuf};
use std::process::Command;

#[derive(Clone, Debug)]
pub struct Cell {
    pub id: String,
    pub title: String,
    pub code: String,
}

fn layout_exprs() -> Vec<(String, String, String)> {
    // (tag, type, const expression)
    let mut v = Vec::new();
    for n in LAYOUT_NAMES {
        v.push((n.to_string(), format!("layouts::{}", n), format!("layouts::{}", n)));
    }
    for n in LAYOUT_NAMES {
        v.push((format!("Any{}", n), "layouts::AnyLayout".to_string(), format!("layouts::AnyLayout::{}(layouts::{})", n, n)));
    }
    v
}

pub fn grid() -> Vec<Cell> {
    let mut cells = Vec::new();
    let prelude = "#![allow(dead_code, unused_imports)]\nuse pc_keyboard::*;\nuse crate::support::*;\n";
    let mut add = |id: String, title: String, body: String| {
        cells.push(Cell { id, title, code: format!("{}{}", prelude, body) });
    };
    for (tag, ty, expr) in layout_exprs() {
        for set in ["ScancodeSet1", "ScancodeSet2"] {
            let kb = format!("Keyboard<{}, {}>", ty, set);
            let new = format!("Keyboard::new({}::new(), {}, HandleControl::Ignore)", set, expr);
            add(
                format!("kb_static_{}_{}", tag, set),
                format!("static {} = Keyboard::new(..) (const constructor + Sync)", kb),
                format!("pub static KB: {} = {};\n", kb, new),
            );
            add(
                format!("kb_mutex_{}_{}", tag, set),
                format!("static Mutex<{}> = Mutex::new(Keyboard::new(..)) (const constructor + Send)", kb),
                format!("pub static KB: Mutex<{}> = Mutex::new({});\n", kb, new),
            );
            add(
                format!("kb_const_getters_{}_{}", tag, set),
                format!("const {}; get_modifiers / get_ctrl_handling in const context", kb),
                format!("pub const KB: {kb} = {new};\npub const NUMLOCK: bool = KB.get_modifiers().numlock;\npub const MODE: HandleControl = KB.get_ctrl_handling();\n", kb = kb, new = new),
            );
            add(
                format!("kb_send_sync_{}_{}", tag, set),
                format!("{}: Send + Sync", kb),
                format!("const _: () = {{ assert_send::<{kb}>(); assert_sync::<{kb}>(); }};\n", kb = kb),
            );
        }
        add(
            format!("ed_static_{}", tag),
            format!("static EventDecoder<{}> = EventDecoder::new(..); const get_ctrl_handling; Send + Sync", ty),
            format!("pub static ED: EventDecoder<{ty}> = EventDecoder::new({expr}, HandleControl::MapLettersToUnicode);\npub const EDC: EventDecoder<{ty}> = EventDecoder::new({expr}, HandleControl::MapLettersToUnicode);\npub const MODE: HandleControl = EDC.get_ctrl_handling();\nconst _: () = {{ assert_send::<EventDecoder<{ty}>>(); assert_sync::<EventDecoder<{ty}>>(); }};\n", ty = ty, expr = expr),
        );
        add(
            format!("layout_send_sync_{}", tag),
            format!("{} value is const-constructible, Send + Sync", ty),
            format!("pub static L: {ty} = {expr};\nconst _: () = {{ assert_send::<{ty}>(); assert_sync::<{ty}>(); }};\n", ty = ty, expr = expr),
        );
    }
    for set in ["ScancodeSet1", "ScancodeSet2"] {
        add(
            format!("set_static_{}", set),
            format!("static {0} = {0}::new(); Send + Sync", set),
            format!("pub static S: {s} = {s}::new();\npub const C: {s} = {s}::new();\nconst _: () = {{ assert_send::<{s}>(); assert_sync::<{s}>(); }};\n", s = set),
        );
    }
    add(
        "ps2_static".into(),
        "static Ps2Decoder = Ps2Decoder::new(); Send + Sync".into(),
        "pub static P: Ps2Decoder = Ps2Decoder::new();\npub const C: Ps2Decoder = Ps2Decoder::new();\nconst _: () = { assert_send::<Ps2Decoder>(); assert_sync::<Ps2Decoder>(); };\n".into(),
    );
    add(
        "keyevent_const".into(),
        "const / static KeyEvent::new(..); Send + Sync".into(),
        "pub const E: KeyEvent = KeyEvent::new(KeyCode::A, KeyState::Down);\npub static S: KeyEvent = KeyEvent::new(KeyCode::PauseBreak, KeyState::SingleShot);\nconst _: () = { assert_send::<KeyEvent>(); assert_sync::<KeyEvent>(); };\n".into(),
    );
    for p in ["is_shifted", "is_ctrl", "is_alt", "is_altgr", "is_caps"] {
        add(
            format!("pred_const_{}", p),
            format!("Modifiers::{}() evaluated in const context over all 512 records", p),
            format!("pub const TABLE: [bool; 512] = {{ let mut t = [false; 512]; let mut i = 0; while i < 512 {{ t[i] = mods_from_bits(i as u16).{}(); i += 1; }} t }};\n", p),
        );
    }
    add(
        "plain_types_send_sync".into(),
        "Error, KeyCode, KeyState, HandleControl, Modifiers, DecodedKey: Send + Sync".into(),
        "const _: () = { assert_send::<Error>(); assert_sync::<Error>(); assert_send::<KeyCode>(); assert_sync::<KeyCode>(); assert_send::<KeyState>(); assert_sync::<KeyState>(); assert_send::<HandleControl>(); assert_sync::<HandleControl>(); assert_send::<Modifiers>(); assert_sync::<Modifiers>(); assert_send::<DecodedKey>(); assert_sync::<DecodedKey>(); };\n".into(),
    );
    cells
}

const SUPPORT: &str = r#"//! helpers shared by the generated cells
use pc_keyboard::Modifiers;
pub const fn assert_send<T: Send>() {}
pub const fn assert_sync<T: Sync>() {}
/// A minimal spin-less stand-in for the Mutex of the property's example: const constructor,
/// Sync iff the payload is Send (exactly what cortex_m / spin mutexes require).
pub struct Mutex<T>(core::cell::UnsafeCell<T>);
unsafe impl<T: Send> Sync for Mutex<T> {}
impl<T> Mutex<T> {
    pub const fn new(t: T) -> Self {
        Mutex(core::cell::UnsafeCell::new(t))
    }
}
pub const fn mods_from_bits(bits: u16) -> Modifiers {
    Modifiers {
        lshift: bits & 1 != 0,
        rshift: bits & 2 != 0,
        lctrl: bits & 4 != 0,
        rctrl: bits & 8 != 0,
        numlock: bits & 16 != 0,
        capslock: bits & 32 != 0,
        lalt: bits & 64 != 0,
        ralt: bits & 128 != 0,
        rctrl2: bits & 256 != 0,
    }
}
"#;

const MAIN_RS: &str = r#"// dynamic half: const-evaluated values must equal the same expressions evaluated at run time
use c20_probe::support::mods_from_bits;
use c20_probe::cells::*;
fn main() {
    let mut bad = 0;
    for i in 0..512usize {
        let m = std::hint::black_box(mods_from_bits(i as u16));
        let rt = [m.is_shifted(), m.is_ctrl(), m.is_alt(), m.is_altgr(), m.is_caps()];
        let ct = [pred_const_is_shifted::TABLE[i], pred_const_is_ctrl::TABLE[i], pred_const_is_alt::TABLE[i], pred_const_is_altgr::TABLE[i], pred_const_is_caps::TABLE[i]];
        if rt != ct { bad += 1; println!("DYN pred {} FAIL const={:?} runtime={:?}", i, ct, rt); }
    }
    println!("DYN predicates compared=2560 mismatches={}", bad);
    // a const Keyboard and a run-time Keyboard report the same initial state
    let k = pc_keyboard::Keyboard::new(pc_keyboard::ScancodeSet2::new(), pc_keyboard::layouts::Us104Key, std::hint::black_box(pc_keyboard::HandleControl::Ignore));
    let same = k.get_modifiers() == kb_const_getters_Us104Key_ScancodeSet2::KB.get_modifiers() && k.get_ctrl_handling() == kb_const_getters_Us104Key_ScancodeSet2::MODE;
    println!("DYN keyboard_initial_state same={}", same);
    // the statics are usable: take a reference from another thread
    let h = std::thread::spawn(|| kb_static_Us104Key_ScancodeSet1::KB.get_modifiers().numlock);
    println!("DYN static_shared_across_threads numlock={}", h.join().unwrap());
}
"#;

fn probe_dir() -> PathBuf {
    let base = std::env::var("CARGO_TARGET_DIR").map(PathBuf::from).unwrap_or_else(|_| crate::report::verif_dir().join("target"));
    base.join("c20-probe")
}

fn write_probe(dir: &Path, cells: &[Cell], with_bin: bool) {
    let _ = std::fs::remove_dir_all(dir.join("src"));
    std::fs::create_dir_all(dir.join("src/cells")).expect("harness: cannot create probe dir");
    let repo = TREE_UNDER_TEST;
    let mut toml = format!("[package]\nname = \"c20-probe\"\nversion = \"0.0.0\"\nedition = \"2021\"\npublish = false\n\n[lib]\nname = \"c20_probe\"\npath = \"src/lib.rs\"\n\n[dependencies]\npc-keyboard = {{ path = {:?} }}\n\n[workspace]\n", repo);
    if with_bin {
        toml.push_str("\n[[bin]]\nname = \"c20-dyn\"\npath = \"src/main.rs\"\n");
    }
    std::fs::write(dir.join("Cargo.toml"), toml).unwrap();
    let mut lib = String::from("#![no_std]\n#![allow(non_snake_case)]\npub mod support;\npub mod cells {\n");
    for c in cells {
        lib.push_str(&format!("    #[path = \"{}.rs\"]\n    pub mod {};\n", c.id, c.id));
        std::fs::write(dir.join("src/cells").join(format!("{}.rs", c.id)), format!("// cell {}: {}\n{}", c.id, c.title, c.code)).unwrap();
    }
    lib.push_str("}\n");
    std::fs::write(dir.join("src/lib.rs"), lib).unwrap();
    std::fs::write(dir.join("src/support.rs"), SUPPORT).unwrap();
    if with_bin {
        std::fs::write(dir.join("src/main.rs"), MAIN_RS).unwrap();
    }
}

struct BuildResult {
    ok: bool,
    /// cell id -> (error code, message)
    errors: BTreeMap<String, Vec<(String, String)>>,
    other_errors: Vec<(String, String)>,
    raw_tail: String,
}

fn cargo_build(dir: &Path, bin: bool) -> BuildResult {
    let target = dir.join("target");
    let mut cmd = Command::new("cargo");
    cmd.current_dir(dir)
        .env("CARGO_NET_OFFLINE", "true")
        .env("CARGO_TARGET_DIR", &target)
        .env_remove("RUSTFLAGS")
        .args(["build", "--offline", "--message-format=json"]);
    if bin {
        cmd.arg("--bins");
    } else {
        cmd.arg("--lib");
    }
    let out = cmd.output().expect("harness: cannot run cargo");
    let stdout = String::from_utf8_lossy(&out.stdout);
    let mut errors: BTreeMap<String, Vec<(String, String)>> = BTreeMap::new();
    let mut other = Vec::new();
    for line in stdout.lines() {
        let Ok(v) = serde_json::from_str::<Value>(line) else { continue };
        if v["reason"] != "compiler-message" {
            continue;
        }
        let m = &v["message"];
        if m["level"] != "error" {
            continue;
        }
        let code = m["code"]["code"].as_str().unwrap_or("").to_string();
        let msg = m["message"].as_str().unwrap_or("").to_string();
        if msg.starts_with("aborting due to") || msg.starts_with("could not compile") {
            continue;
        }
        let mut cell = None;
        if let Some(spans) = m["spans"].as_array() {
            for s in spans {
                if let Some(f) = s["file_name"].as_str() {
                    if let Some(p) = f.find("src/cells/") {
                        cell = Some(f[p + "src/cells/".len()..].trim_end_matches(".rs").to_string());
                    }
                }
            }
        }
        match cell {
            Some(c) => errors.entry(c).or_default().push((code, msg)),
            None => other.push((code, msg)),
        }
    }
    let stderr = String::from_utf8_lossy(&out.stderr);
    let tail: String = stderr.lines().rev().take(15).collect::<Vec<_>>().into_iter().rev().collect::<Vec<_>>().join("\n");
    BuildResult { ok: out.status.success(), errors, other_errors: other, raw_tail: tail }
}

fn is_property_error(code: &str, msg: &str) -> bool {
    matches!(code, "E0015" | "E0658" | "E0277" | "E0492" | "E0493" | "E0010" | "E0080" | "E0019" | "E0133")
        || msg.contains("cannot be shared between threads")
        || msg.contains("cannot be sent between threads")
        || msg.contains("in constants")
        || msg.contains("in statics")
        || msg.contains("non-const")
}

pub fn c20(run: &mut Run) {
    run.level = "other";
    run.rule = "Generated grid of const/static/auto-trait probe items: {Keyboard::new in a static, in a Mutex static, const Keyboard + get_modifiers/get_ctrl_handling in const context, Keyboard Send+Sync} x {10 layouts, 10 AnyLayout variants} x {Set 1, Set 2}; EventDecoder::new/get_ctrl_handling and layout values per layout; ScancodeSet1/2::new, Ps2Decoder::new, KeyEvent::new; the five Modifiers predicates evaluated in const context on all 512 records; all plain public types Send+Sync. One module (one file) per grid cell in a #![no_std] crate built against the tree with the hook feature off. Oracle: rustc accepts the cell. Dynamic half: a std binary compares the const-evaluated predicate tables and a const Keyboard's getters with the same expressions evaluated at run time, and shares a static Keyboard with another thread. Non-trivial = every cell (each demands a const evaluation or an auto-trait proof); distinct by cell id.".into();
    run.extra.insert(
        "explanation".into(),
        json!("C20 is a property of programs that use the crate, decided by the type checker and const evaluator, not by running the crate: the check GENERATES the grid of downstream items (one per constructor/accessor x layout x scancode set), and the oracle for each generated item is 'rustc accepts it' (E0015/E0658/E0277/E0492/E0493/E0080-class diagnostics = violation; any other build failure = inconclusive, exit 2). A failing cell is the minimal reproduction: its single source file is the replay file and is rebuilt alone in --replay mode. No random search is meaningful on a finite grid of ~150 cells; this is where the property-based family ends, hence level 'other'. The dynamic half keeps an executable oracle in the loop (const value == run-time value)."),
    );
    run.assumptions = vec![
        "only the installed stable toolchain is available: the MSRV (1.61) aspect of const-ness cannot be exercised".into(),
        "built with the verif-hooks feature OFF (what downstream users build)".into(),
    ];
    let cells = grid();
    let dir = probe_dir();
    write_probe(&dir, &cells, true);
    let res = cargo_build(&dir, true);
    run.eval(cells.len() as u64);
    for c in &cells {
        run.nontrivial_fp(fp(&c.id));
    }
    for c in cells.iter().step_by(cells.len() / 6 + 1) {
        let c = c.clone();
        run.sample(|| json!({"cell": c.id, "title": c.title, "generated_source": c.code}));
    }
    let mut inconclusive = Vec::new();
    if !res.ok {
        if res.errors.is_empty() {
            inconclusive.push(format!("probe crate does not build for a reason outside the grid cells: {:?} / {}", res.other_errors.iter().take(3).collect::<Vec<_>>(), res.raw_tail));
        }
        let failing: BTreeSet<String> = res.errors.keys().cloned().collect();
        for id in &failing {
            let cell = cells.iter().find(|c| &c.id == id).cloned();
            let errs = &res.errors[id];
            let prop: Vec<&(String, String)> = errs.iter().filter(|(c, m)| is_property_error(c, m)).collect();
            if prop.is_empty() {
                inconclusive.push(format!("cell {} fails with diagnostics that are not const/auto-trait errors: {:?}", id, errs.iter().take(2).collect::<Vec<_>>()));
                continue;
            }
            let codes: BTreeSet<&str> = prop.iter().map(|(c, _)| c.as_str()).collect();
            let first = &prop[0].1;
            run.violation(Violation {
                sig: format!("C20:{}:{}", id, codes.into_iter().collect::<Vec<_>>().join("+")),
                what: format!("generated downstream item '{}' is rejected by rustc: {}", cell.as_ref().map(|c| c.title.clone()).unwrap_or_default(), first.lines().next().unwrap_or("")),
                case: json!({"kind":"c20_cell","cell":id,"title":cell.as_ref().map(|c| c.title.clone()),"source":cell.as_ref().map(|c| c.code.clone()),"diagnostics":errs.iter().map(|(c,m)| format!("{}: {}", c, m.lines().next().unwrap_or(""))).collect::<Vec<_>>()}),
            });
        }
    }
    let mut dynamic = json!({"ran": false});
    if res.ok {
        let bin = dir.join("target/debug/c20-dyn");
        match Command::new(&bin).output() {
            Ok(o) => {
                let txt = String::from_utf8_lossy(&o.stdout).to_string();
                let mut lines = Vec::new();
                for l in txt.lines() {
                    lines.push(l.to_string());
                    if l.contains("FAIL") || l.contains("same=false") || (l.starts_with("DYN predicates") && !l.ends_with("mismatches=0")) {
                        run.violation(Violation {
                            sig: format!("C20:dynamic:{}", l.replace(' ', "_").chars().take(80).collect::<String>()),
                            what: format!("const-evaluated value differs from the run-time value: {}", l),
                            case: json!({"kind":"c20_dynamic","line":l}),
                        });
                    }
                }
                run.eval(2560 + 2);
                if !o.status.success() {
                    inconclusive.push(format!("dynamic probe exited with {:?}", o.status.code()));
                }
                dynamic = json!({"ran": true, "output": lines.iter().filter(|l| !l.contains("FAIL")).take(6).collect::<Vec<_>>()});
            }
            Err(e) => inconclusive.push(format!("cannot run the dynamic probe: {}", e)),
        }
    }
    run.part("grid", json!({"cells": cells.len(), "build_ok": res.ok, "cells_rejected": res.errors.len(), "dynamic": dynamic, "probe_dir": dir.display().to_string()}));
    run.exhaustive = true;
    if !inconclusive.is_empty() {
        run.undecided = Some(inconclusive.join(" | "));
    }
    run.inconclusive.extend(inconclusive);
}

/// rebuild a single cell alone
pub fn replay(run: &mut Run, case: &Value) -> bool {
    match case["kind"].as_str().unwrap_or("") {
        "c20_cell" => {
            run.level = "other";
            let id = case["cell"].as_str().unwrap_or("").to_string();
            let cells: Vec<Cell> = grid().into_iter().filter(|c| c.id == id).collect();
            if cells.is_empty() {
                return false;
            }
            let dir = probe_dir().with_file_name("c20-probe-replay");
            write_probe(&dir, &cells, false);
            let res = cargo_build(&dir, false);
            run.eval(1);
            if !res.ok {
                let errs: Vec<String> = res.errors.values().flatten().map(|(c, m)| format!("{}: {}", c, m.lines().next().unwrap_or(""))).collect();
                run.violation(Violation { sig: format!("C20:{}", id), what: format!("cell {} alone is rejected by rustc: {}", id, errs.join("; ")), case: case.clone() });
            }
            true
        }
        "c20_dynamic" => {
            c20(run);
            true
        }
        _ => false,
    }
}
