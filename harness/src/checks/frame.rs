//! PS/2 frame checks: C05 (frame acceptance, whole word) and C06 (bit-serial framing,
//! independence of frames, clear()).
use crate::gen::{self, BitOp};
use crate::model::frame::{self, BitModel};
use crate::prop::run_prop;
use crate::report::{fp, guard, panic_sig, Run, Violation};
use crate::universe::*;
use rayon::prelude::*;
use serde_json::{json, Value};
use std::cell::RefCell;

fn res_u8_str(r: &Result<u8, Error>) -> String {
    match r {
        Ok(b) => format!("Ok({:02X})", b),
        Err(e) => format!("Err({:?})", e),
    }
}
fn res_opt_str(r: &Result<Option<u8>, Error>) -> String {
    match r {
        Ok(None) => "None".into(),
        Ok(Some(b)) => format!("Some({:02X})", b),
        Err(e) => format!("Err({:?})", e),
    }
}

pub fn ops_compact(ops: &[BitOp]) -> String {
    ops.iter()
        .map(|o| match o {
            BitOp::Bit(true) => '1',
            BitOp::Bit(false) => '0',
            BitOp::Clear => 'c',
        })
        .collect()
}
pub fn ops_parse(s: &str) -> Vec<BitOp> {
    s.chars()
        .filter_map(|c| match c {
            '1' => Some(BitOp::Bit(true)),
            '0' => Some(BitOp::Bit(false)),
            'c' => Some(BitOp::Clear),
            _ => None,
        })
        .collect()
}

// ---------------------------------------------------------------------------------------
// C05
// ---------------------------------------------------------------------------------------
/// one whole-word case: `pending` bits (all ones) are shifted into the decoder first, to show
/// that add_word does not depend on the bit-serial state.
pub fn c05_eval_word(run: &mut Run, w: u16, pending: usize) {
    run.eval(1);
    let want = frame::check_word(w);
    let case = json!({"kind":"word","word":w,"bits_lsb_first":ops_compact(&frame::word_bits(w).iter().map(|b| BitOp::Bit(*b)).collect::<Vec<_>>()),"pending":pending});
    // entry point 1: Ps2Decoder::add_word
    let got = guard(|| {
        let mut d = Ps2Decoder::new();
        for _ in 0..pending {
            let _ = d.add_bit(true);
        }
        d.add_word(w)
    });
    match got {
        Err(p) => run.violation(Violation {
            sig: format!("ps2:add_word:word={:03X}:pending={}:{}", w, pending, panic_sig(&p)),
            what: format!("Ps2Decoder::add_word({:#05X}) panics: {}", w, p),
            case: case.clone(),
        }),
        Ok(g) => {
            if g != want {
                run.violation(Violation {
                    sig: format!("ps2:add_word:word={:03X}:pending={}:want={}:got={}", w, pending, res_u8_str(&want), res_u8_str(&g)),
                    what: format!(
                        "Ps2Decoder::add_word({:#05X}) [start={} data={:02X} parity={} stop={}]{} returns {}, the frame rule requires {}",
                        w, w & 1, (w >> 1) & 0xFF, (w >> 9) & 1, (w >> 10) & 1,
                        if pending > 0 { format!(" with {} bits pending", pending) } else { String::new() },
                        res_u8_str(&g), res_u8_str(&want)
                    ),
                    case: case.clone(),
                });
            }
        }
    }
    if pending > 0 {
        return;
    }
    // entry point 2: Keyboard::add_word (framing verdict only; what the scancode stage makes of
    // an accepted byte is C01/C02/C18's business) — both scancode sets
    for set2 in [true, false] {
        run.eval(1);
        let got = guard(|| {
            if set2 {
                Keyboard::new(ScancodeSet2::new(), Us104Key, HandleControl::Ignore).add_word(w)
            } else {
                Keyboard::new(ScancodeSet1::new(), Us104Key, HandleControl::Ignore).add_word(w)
            }
        });
        let framing_err = |r: &Result<Option<KeyEvent>, Error>| match r {
            Err(e @ (Error::BadStartBit | Error::BadStopBit | Error::ParityError)) => Some(*e),
            _ => None,
        };
        match got {
            Err(p) => run.violation(Violation {
                sig: format!("kbd:add_word:word={:03X}:{}", w, panic_sig(&p)),
                what: format!("Keyboard::add_word({:#05X}) panics: {}", w, p),
                case: case.clone(),
            }),
            Ok(g) => {
                let ok = match &want {
                    Err(e) => framing_err(&g) == Some(*e),
                    Ok(_) => framing_err(&g).is_none(),
                };
                if !ok {
                    run.violation(Violation {
                        sig: format!("kbd:add_word:word={:03X}:want={}:got={}", w, res_u8_str(&want), sc_out_str(&g)),
                        what: format!("Keyboard::add_word({:#05X}) returns {} but the frame rule gives {}", w, sc_out_str(&g), res_u8_str(&want)),
                        case: case.clone(),
                    });
                }
            }
        }
    }
    // entry point 3: the same frame shifted in bit by bit
    run.eval(1);
    let bits = frame::word_bits(w);
    let got = guard(|| {
        let mut d = Ps2Decoder::new();
        let mut outs = Vec::new();
        for b in bits {
            outs.push(d.add_bit(b));
        }
        outs
    });
    match got {
        Err(p) => run.violation(Violation {
            sig: format!("ps2:add_bit:word={:03X}:{}", w, panic_sig(&p)),
            what: format!("Ps2Decoder::add_bit panics while shifting in {:#05X}: {}", w, p),
            case: case.clone(),
        }),
        Ok(outs) => {
            let last = outs.last().cloned().unwrap();
            let early_ok = outs[..10].iter().all(|o| matches!(o, Ok(None)));
            let want_last: Result<Option<u8>, Error> = want.map(Some);
            if !early_ok || last != want_last {
                run.violation(Violation {
                    sig: format!("ps2:add_bit:word={:03X}:want={}:got={}", w, res_opt_str(&want_last), if early_ok { res_opt_str(&last) } else { "early-result".into() }),
                    what: format!("shifting {:#05X} into a fresh Ps2Decoder bit by bit gives {:?}; the frame rule requires ten None and then {}", w, outs.iter().map(res_opt_str).collect::<Vec<_>>(), res_opt_str(&want_last)),
                    case,
                });
            }
        }
    }
}

/// The acceptance rule through the bit-serial entry point with a *preceding frame* `prev`
/// (accepted or rejected) on the same decoder: the verdict on `w` must still be the rule's.
pub fn c05_eval_after(run: &mut Run, prev: u16, w: u16) {
    run.eval(1);
    let want: Result<Option<u8>, Error> = frame::check_word(w).map(Some);
    let case = json!({"kind":"word_after","prev":prev,"word":w});
    let got = guard(|| {
        let mut d = Ps2Decoder::new();
        for b in frame::word_bits(prev) {
            let _ = d.add_bit(b);
        }
        let mut last = Ok(None);
        let mut early_ok = true;
        for (i, b) in frame::word_bits(w).iter().enumerate() {
            last = d.add_bit(*b);
            if i < 10 && !matches!(last, Ok(None)) {
                early_ok = false;
            }
        }
        (early_ok, last)
    });
    match got {
        Err(p) => run.violation(Violation { sig: format!("ps2:add_bit:after={:03X}:word={:03X}:{}", prev, w, panic_sig(&p)), what: format!("Ps2Decoder::add_bit panics shifting in {:#05X} after the frame {:#05X}: {}", w, prev, p), case }),
        Ok((early_ok, last)) => {
            if !early_ok || last != want {
                run.violation(Violation {
                    sig: format!("ps2:add_bit:after={:03X}({}):word={:03X}:want={}:got={}", prev, frame::err_class(prev), w, res_opt_str(&want), if early_ok { res_opt_str(&last) } else { "early-result".into() }),
                    what: format!("after the {} frame {:#05X}, shifting in the frame {:#05X} [start={} data={:02X} parity={} stop={}] gives {}; the acceptance rule requires {}", frame::err_class(prev), prev, w, w & 1, (w >> 1) & 0xFF, (w >> 9) & 1, (w >> 10) & 1, res_opt_str(&last), res_opt_str(&want)),
                    case,
                });
            }
        }
    }
}

/// The acceptance rule through the bit-serial entry point after a *run* of `count` copies of
/// the frame `x` on the same decoder (held key, burst of line noise): free-running counters,
/// re-synchronisation heuristics and the like show only after many frames.
pub fn c05_eval_after_run(run: &mut Run, x: u16, count: usize, w: u16) {
    run.eval(1);
    let want: Result<Option<u8>, Error> = frame::check_word(w).map(Some);
    let case = json!({"kind":"word_after_run","frame":x,"count":count,"word":w});
    let got = guard(|| {
        let mut d = Ps2Decoder::new();
        for _ in 0..count {
            for b in frame::word_bits(x) {
                let _ = d.add_bit(b);
            }
        }
        let mut last = Ok(None);
        let mut early_ok = true;
        for (i, b) in frame::word_bits(w).iter().enumerate() {
            last = d.add_bit(*b);
            if i < 10 && !matches!(last, Ok(None)) {
                early_ok = false;
            }
        }
        (early_ok, last)
    });
    match got {
        Err(p) => run.violation(Violation { sig: format!("ps2:add_bit:after-run={:03X}x{}:word={:03X}:{}", x, count, w, panic_sig(&p)), what: format!("Ps2Decoder::add_bit panics shifting in {:#05X} after {} copies of the frame {:#05X}: {}", w, count, x, p), case }),
        Ok((early_ok, last)) => {
            if !early_ok || last != want {
                run.violation(Violation {
                    sig: format!("ps2:add_bit:after-run={:03X}({})x{}:word={:03X}:want={}:got={}", x, frame::err_class(x), count, w, res_opt_str(&want), if early_ok { res_opt_str(&last) } else { "early-result".into() }),
                    what: format!("after {} copies of the {} frame {:#05X} shifted in bit by bit, the frame {:#05X} [start={} data={:02X} parity={} stop={}] gives {}; the acceptance rule requires {}", count, frame::err_class(x), x, w, w & 1, (w >> 1) & 0xFF, (w >> 9) & 1, (w >> 10) & 1, if early_ok { res_opt_str(&last) } else { "a result before the 11th bit".into() }, res_opt_str(&want)),
                    case,
                });
            }
        }
    }
}

pub fn c05(run: &mut Run) {
    run.rule = "Exhaustive: all 2048 11-bit words through Ps2Decoder::add_word (also with 1, 5 and 10 bits pending in the shift register), Keyboard::add_word (both scancode sets; framing verdict) and bit by bit through add_bit, compared with an independent frame model, and again through add_bit right after each of 8 representative preceding frames (valid, bad start, bad stop, parity error, all-ones, all-zeros), and after runs of 2-48, 64, 127-129, 255-257, 300, 511-513 and 1000 (thorough: up to 65537) copies of one frame (valid or rejected) with 12 probe frames (start=0, stop=1, odd parity over data+parity, error priority start > stop > parity, data = bits 1..8). All 256 bytes are encoded by the model's encoder and must round-trip; all 11 single-bit and 55 double-bit corruptions of each of the 256 valid frames are compared with the model (every single-bit corruption must be rejected). Non-trivial = every word is (each is valid or has at least one defect); distinct = distinct (word, pending) and distinct (byte, flipped bit set).".into();
    run.assumptions = vec!["words with bits above bit 10 are outside the documented precondition and only exercised for C08".into()];
    let mut class = std::collections::BTreeMap::<&str, u64>::new();
    for w in 0..0x800u16 {
        *class.entry(frame::err_class(w)).or_default() += 1;
        for pending in [0usize, 1, 5, 10] {
            c05_eval_word(run, w, pending);
            run.nontrivial_fp(fp(&("w", w, pending)));
        }
        if w % 173 == 0 || run.wants_sample() && w < 4 {
            let want = frame::check_word(w);
            let got = guard(|| Ps2Decoder::new().add_word(w)).ok();
            run.sample(|| json!({"word": format!("{:#05X}", w), "start": w & 1, "data": format!("{:02X}", (w >> 1) & 0xFF), "parity": (w >> 9) & 1, "stop": (w >> 10) & 1, "model": res_u8_str(&want), "add_word": got.as_ref().map(res_u8_str)}));
        }
    }
    run.part("all_words", json!({"words": 2048, "classes_by_model": class}));
    // the same rule through add_bit when another frame (valid, bad start, bad stop, parity
    // error, all-ones, all-zeros) went through the decoder just before
    let prevs: [u16; 8] = [frame::encode(0x00), frame::encode(0xFF), 0x7FF, 0x000, frame::encode(0x01) ^ 0x200, frame::encode(0xA5) ^ 0x004, 0x3FE, frame::encode(0x5A) ^ 0x400];
    for prev in prevs {
        for w in 0..0x800u16 {
            c05_eval_after(run, prev, w);
            run.nontrivial_fp(fp(&("after", prev, w)));
        }
    }
    run.part("after_preceding_frame", json!({"preceding_frames": prevs.iter().map(|p| format!("{:#05X} ({})", p, frame::err_class(*p))).collect::<Vec<_>>(), "cases": 8 * 2048}));
    // ... and after runs of 2..=48, 64, 127..=129, 255..=257, 300, 511..=513, 1000 and 65535..=65537
    // (thorough) copies of one frame; probes: valid frames and one frame of every rejection class
    let run_frames: [u16; 5] = [frame::encode(0x1C), frame::encode(0xF0), frame::encode(0x1C) ^ 0x200, 0x7FF, 0x000];
    let probes: Vec<u16> = vec![frame::encode(0x1C), frame::encode(0x00), frame::encode(0xFF), frame::encode(0xE0), frame::encode(0xA5), frame::encode(0x1C) ^ 0x200, frame::encode(0x1C) | 1, frame::encode(0x1C) & !0x400, 0x7FF, 0x000, 0x3FE, 0x401];
    let mut counts: Vec<usize> = (2..=48).collect();
    counts.extend([64usize, 127, 128, 129, 255, 256, 257, 300, 511, 512, 513, 1000]);
    if run.tier == crate::report::Tier::Thorough {
        counts.extend([4095usize, 4096, 4097, 65535, 65536, 65537]);
    }
    let mut n_runs = 0u64;
    for x in run_frames {
        for &n in &counts {
            for &w in &probes {
                c05_eval_after_run(run, x, n, w);
                run.nontrivial_fp(fp(&("after_run", x, n, w)));
                n_runs += 1;
            }
        }
    }
    run.part("after_runs_of_one_frame", json!({"run_frames": run_frames.iter().map(|p| format!("{:#05X} ({})", p, frame::err_class(*p))).collect::<Vec<_>>(), "run_lengths": counts.len(), "probe_frames": probes.len(), "cases": n_runs}));
    // round trip + corruptions
    let (mut single, mut double, mut double_accepted) = (0u64, 0u64, 0u64);
    for b in 0..=255u8 {
        let w = frame::encode(b);
        assert_eq!(frame::check_word(w), Ok(b), "harness: frame encoder/model disagree");
        c05_eval_word(run, w, 0);
        let got = guard(|| Ps2Decoder::new().add_word(w));
        if got != Ok(Ok(b)) {
            run.violation(Violation {
                sig: format!("ps2:roundtrip:byte={:02X}:got={}", b, got.as_ref().map(res_u8_str).unwrap_or_else(|p| panic_sig(p))),
                what: format!("the valid frame {:#05X} of byte {:02X} does not decode back to the byte", w, b),
                case: json!({"kind":"word","word":w,"pending":0}),
            });
        }
        for i in 0..11 {
            let c = w ^ (1 << i);
            assert!(frame::check_word(c).is_err(), "harness: model accepts a single-bit corruption");
            single += 1;
            c05_eval_word(run, c, 0);
            run.nontrivial_fp(fp(&("c1", b, i)));
            for j in (i + 1)..11 {
                let c2 = c ^ (1 << j);
                double += 1;
                if frame::check_word(c2).is_ok() {
                    double_accepted += 1;
                }
                c05_eval_word(run, c2, 0);
                run.nontrivial_fp(fp(&("c2", b, i, j)));
            }
        }
    }
    run.part("corruptions", json!({"bytes": 256, "single_bit": single, "double_bit": double, "double_bit_still_valid_by_model": double_accepted}));
    run.exhaustive = true;
}

// ---------------------------------------------------------------------------------------
// C06
// ---------------------------------------------------------------------------------------
/// Evaluate one bit/clear sequence against the bit-serial model, through Ps2Decoder and
/// through Keyboard::add_bit / Keyboard::clear. Reports the first deviation of each path.
pub fn c06_eval_ops(run: &mut Run, ops: &[BitOp]) {
    run.eval(1);
    let case = json!({"kind":"bits","ops":ops_compact(ops)});
    // path 1: Ps2Decoder
    let r = guard(|| {
        let mut d = Ps2Decoder::new();
        let mut m = BitModel::relational();
        for (i, op) in ops.iter().enumerate() {
            match op {
                BitOp::Clear => {
                    d.clear();
                    m.clear();
                }
                BitOp::Bit(b) => {
                    let pend = m.pending.len();
                    let got = d.add_bit(*b);
                    let want = m.add_bit(*b);
                    if got != want {
                        return Some((i, pend, res_opt_str(&want), res_opt_str(&got)));
                    }
                }
            }
        }
        None
    });
    match r {
        Err(p) => run.violation(Violation {
            sig: format!("ps2:bits:{}:{}", ops_compact(ops), panic_sig(&p)),
            what: format!("Ps2Decoder panics on bit sequence {}: {}", ops_compact(ops), p),
            case: case.clone(),
        }),
        Ok(Some((i, pend, want, got))) => run.violation(Violation {
            sig: format!("ps2:bits:{}:step={}:want={}:got={}", ops_compact(&ops[..=i]), i, want, got),
            what: format!("Ps2Decoder: after the bit/clear sequence {} ({} bits of a frame pending), the next bit gives {}, whole-word decoding of the frame requires {}", ops_compact(&ops[..i]), pend, got, want),
            case: json!({"kind":"bits","ops":ops_compact(&ops[..=i])}),
        }),
        Ok(None) => {}
    }
    // path 2: Keyboard (Set 2). Only the framing is judged here: incomplete until the 11th bit,
    // a rejected frame is rejected with add_word's error, an accepted frame is not reported as
    // a framing error. What the accepted byte then decodes to is the business of C01/C18.
    let r = guard(|| {
        let mut k = Keyboard::new(ScancodeSet2::new(), Us104Key, HandleControl::Ignore);
        let mut m = BitModel::relational();
        for (i, op) in ops.iter().enumerate() {
            match op {
                BitOp::Clear => {
                    k.clear();
                    m.clear();
                }
                BitOp::Bit(b) => {
                    let got = k.add_bit(*b);
                    let (ok, want) = match m.add_bit(*b) {
                        Err(e) => (got == Err(e.clone()), sc_out_str(&Err(e))),
                        Ok(None) => (got == Ok(None), "None".to_string()),
                        Ok(Some(byte)) => (
                            !matches!(got, Err(Error::BadStartBit) | Err(Error::BadStopBit) | Err(Error::ParityError)),
                            format!("byte {:02X} handed to the scancode stage (no framing error)", byte),
                        ),
                    };
                    if !ok {
                        return Some((i, want, sc_out_str(&got)));
                    }
                }
            }
        }
        None
    });
    match r {
        Err(p) => run.violation(Violation {
            sig: format!("kbd:bits:{}:{}", ops_compact(ops), panic_sig(&p)),
            what: format!("Keyboard::add_bit/clear panics on bit sequence {}: {}", ops_compact(ops), p),
            case,
        }),
        Ok(Some((i, want, got))) => run.violation(Violation {
            sig: format!("kbd:bits:{}:step={}:want={}:got={}", ops_compact(&ops[..=i]), i, want, got),
            what: format!("Keyboard::add_bit: after the bit/clear sequence {} the next bit gives {}, whole-word decoding of the frame requires {}", ops_compact(&ops[..i]), got, want),
            case: json!({"kind":"bits","ops":ops_compact(&ops[..=i])}),
        }),
        Ok(None) => {}
    }
}

fn word_ops(w: u16, n: usize) -> Vec<BitOp> {
    (0..n).map(|i| BitOp::Bit((w >> i) & 1 != 0)).collect()
}

/// U1^i U2^j probe: units are whole frames (valid / rejected) and abandoned partial frames +
/// clear(); (i, j) in {(1100,1100), (2200,1100), (1100,2200)}
pub fn long_unit_grammar() -> Vec<Vec<BitOp>> {
    let x = frame::encode(0x1C);
    let units: Vec<Vec<BitOp>> = vec![
        vec![BitOp::Bit(false), BitOp::Clear],
        vec![BitOp::Bit(true), BitOp::Clear],
        { let mut v = word_ops(x, 5); v.push(BitOp::Clear); v },
        word_ops(x, 11),
        word_ops(x ^ 0x200, 11),
        word_ops(0x7FF, 11),
    ];
    let mut out = Vec::new();
    // burst cycles (U1^a U2^b)^60
    for a in &units {
        for b in &units {
            for (na, nb) in [(1usize, 1usize), (2, 1), (3, 1), (4, 2), (5, 1), (8, 3), (1, 2), (2, 2), (4, 1), (12, 2), (16, 1)] {
                let mut v: Vec<BitOp> = Vec::new();
                for _ in 0..60 {
                    for _ in 0..na { v.extend(a.iter().copied()); }
                    for _ in 0..nb { v.extend(b.iter().copied()); }
                }
                v.extend(word_ops(x | 1, 11));
                v.extend(word_ops(x, 11));
                v.extend(word_ops(x ^ 0x004, 11));
                v.extend(word_ops(x, 11));
                out.push(v);
            }
        }
    }
    // three-phase small-count grid R^a X^b P: a faults (rejected frames or abandoned partial
    // frames), b good frames, then a probe, for EVERY a in 1..=16 and b in 0..=48
    {
        let faults: Vec<Vec<BitOp>> = vec![word_ops(x ^ 0x200, 11), word_ops(0x7FF, 11), word_ops(0x000, 11), { let mut v = word_ops(x, 3); v.push(BitOp::Clear); v }];
        let probes: Vec<Vec<BitOp>> = vec![
            [word_ops(x | 1, 11), word_ops(x, 11)].concat(),
            [word_ops(x & !0x400, 11), word_ops(x, 11)].concat(),
            [word_ops(x ^ 0x200, 11), word_ops(x, 11), word_ops(x, 11)].concat(),
            [word_ops(x ^ 0x008, 11), word_ops(x, 11)].concat(),
        ];
        for f in &faults {
            for a in 1..=16usize {
                for b in 0..=48usize {
                    for p in &probes {
                        let mut v: Vec<BitOp> = Vec::new();
                        for _ in 0..a { v.extend(f.iter().copied()); }
                        for _ in 0..b { v.extend(word_ops(x, 11)); }
                        v.extend(p.iter().copied());
                        out.push(v);
                    }
                }
            }
        }
    }
    // two-scale periodic (U1^p U2^b)^6: long good runs separated by short fault bursts
    for a in &units {
        for b in &units {
            if a == b { continue; }
            for p in [255usize, 256, 512, 513, 1024] {
                for nb in [1usize, 2, 3] {
                    let mut v: Vec<BitOp> = Vec::new();
                    for _ in 0..6 {
                        for _ in 0..p { v.extend(a.iter().copied()); }
                        for _ in 0..nb { v.extend(b.iter().copied()); }
                    }
                    v.extend(word_ops(x, 11));
                    v.extend(word_ops(x | 1, 11));
                    v.extend(word_ops(x, 11));
                    out.push(v);
                }
            }
        }
    }
    for a in &units {
        for b in &units {
            for (i, j) in [(1100usize, 1100usize), (2200, 1100), (1100, 2200)] {
                let mut v: Vec<BitOp> = Vec::with_capacity(i * a.len() + j * b.len() + 44);
                for _ in 0..i { v.extend(a.iter().copied()); }
                for _ in 0..j { v.extend(b.iter().copied()); }
                v.extend(word_ops(x | 1, 11));
                v.extend(word_ops(x, 11));
                v.extend(word_ops(x ^ 0x004, 11));
                v.extend(word_ops(x, 11));
                out.push(v);
            }
        }
    }
    out
}

pub fn c06(run: &mut Run) {
    run.rule = "Exhaustive: (a) every partial prefix of 0-10 bits (2047 shift-register states, each reached by feeding the prefix to a fresh decoder) x next bit: 'incomplete' until the 11th bit, then exactly what the crate's own Ps2Decoder::add_word returns for those 11 bits (relational oracle; whether add_word is right is C05); (b) all 2048 x 2048 ordered frame pairs bit by bit on a fresh decoder: both results must equal whole-word decoding whatever the first frame was; (c) every partial state -> clear() -> every frame. State exploration: BFS over {bit 0, bit 1, clear()} with states named by Ps2Decoder's Debug rendering. Repeat-then-perturb: a frame repeated 1-6 times (typematic repeat), then optionally an abandoned partial frame + clear(), then the same frame / each single-bit corruption / another frame. Deep-history families: a frame held for 255/256/300 repeats, 1-16 rejected frames, the frame again, then each single-bit corruption; noisy-line workloads (6000 frames of typing traffic with 0-33% corrupted frames and 0-10% abandoned partial frames + clear(), with bad-start/bad-stop probes at every 1024-frame boundary). Pumping: frames and partial-frame+clear() patterns repeated for >= 80,000 bits. Random: chunked bit streams (valid frames, bursts of rejected frames, 1-2 flipped bits, random 11 bits, partial frame + clear(), clear() at a boundary, random runs) against the bit-serial model (pending bits + add_word's verdict) through Ps2Decoder and through Keyboard::add_bit/clear (framing outcome only: incomplete / add_word's error / frame accepted). Non-trivial = pair with exactly one of the two frames rejected; clear() with >= 1 pending bit followed by a frame; random stream containing a rejected frame followed by an accepted one or a clear() with pending bits. Exhaustive cases are distinct by construction, random ones by op-string fingerprint.".into();
    run.assumptions = vec!["Ps2Decoder is deterministic; each case starts from Ps2Decoder::new()".into()];

    // (a) partial states x next bit
    let mut states = 0u64;
    for n in 0..=10usize {
        for p in 0..(1u32 << n) {
            states += 1;
            for bit in [false, true] {
                let mut ops = word_ops(p as u16, n);
                ops.push(BitOp::Bit(bit));
                c06_eval_ops(run, &ops);
                if n > 0 {
                    run.nontrivial_enum(1);
                }
                if (p as usize * 7 + n) % 397 == 0 {
                    let o = ops.clone();
                    run.sample(|| {
                        let mut d = Ps2Decoder::new();
                        let outs: Vec<String> = o.iter().map(|x| match x { BitOp::Bit(b) => res_opt_str(&d.add_bit(*b)), BitOp::Clear => { d.clear(); "cleared".into() } }).collect();
                        json!({"layer":"partial-state x bit","ops":ops_compact(&o),"last_result":outs.last()})
                    });
                }
            }
        }
    }
    run.part("partial_states", json!({"states": states, "transitions": states * 2}));

    // (b) all ordered frame pairs, parallel over the first frame
    let verdict: Vec<Result<Option<u8>, Error>> = (0..0x800u16).map(|w| frame::real_verdict(w).map(Some)).collect();
    let fails: Vec<(u16, u16)> = (0..0x800u16)
        .into_par_iter()
        .flat_map_iter(|a| {
            let mut bad = Vec::new();
            let r = guard(|| {
                let mut bad = Vec::new();
                for b in 0..0x800u16 {
                    let mut d = Ps2Decoder::new();
                    let mut ok = true;
                    for i in 0..11 {
                        let o = d.add_bit((a >> i) & 1 != 0);
                        if i < 10 {
                            ok &= matches!(o, Ok(None));
                        } else {
                            ok &= o == verdict[a as usize];
                        }
                    }
                    for i in 0..11 {
                        let o = d.add_bit((b >> i) & 1 != 0);
                        if i < 10 {
                            ok &= matches!(o, Ok(None));
                        } else {
                            ok &= o == verdict[b as usize];
                        }
                    }
                    if !ok && bad.len() < 4 {
                        bad.push((a, b));
                    }
                }
                bad
            });
            match r {
                Ok(v) => bad.extend(v),
                Err(_) => bad.push((a, 0)),
            }
            bad.into_iter()
        })
        .collect();
    run.eval(2048 * 2048);
    // non-trivial pairs: exactly one of the two is rejected
    let valid = verdict.iter().filter(|v| v.is_ok()).count() as u64;
    run.nontrivial_enum(2 * valid * (2048 - valid));
    for (a, b) in fails.iter().take(24) {
        let mut ops = word_ops(*a, 11);
        ops.extend(word_ops(*b, 11));
        c06_eval_ops(run, &ops);
    }
    run.total_violating_cases += fails.len().saturating_sub(24) as u64;
    run.part("frame_pairs", json!({"pairs": 2048u64 * 2048, "add_bit_calls": 2048u64 * 2048 * 22, "valid_frames": valid, "failing_pairs(sampled<=4_per_first_frame)": fails.len()}));
    {
        let (a, b) = (0x3FEu16, frame::encode(0x1C));
        let mut ops = word_ops(a, 11);
        ops.extend(word_ops(b, 11));
        run.sample(|| json!({"layer":"frame-pair","first":format!("{:#05X} ({})", a, frame::err_class(a)),"second":format!("{:#05X} ({})", b, frame::err_class(b)),"ops":ops_compact(&ops)}));
    }

    // (c) every partial state -> clear() -> every frame
    let mut partials: Vec<(usize, u16)> = Vec::new();
    for n in 0..=10usize {
        for p in 0..(1u32 << n) {
            partials.push((n, p as u16));
        }
    }
    let fails: Vec<(usize, u16, u16)> = partials
        .par_iter()
        .flat_map_iter(|(n, p)| {
            let r = guard(|| {
                let mut bad = Vec::new();
                for w in 0..0x800u16 {
                    let mut d = Ps2Decoder::new();
                    let mut ok = true;
                    for i in 0..*n {
                        ok &= matches!(d.add_bit((p >> i) & 1 != 0), Ok(None));
                    }
                    d.clear();
                    for i in 0..11 {
                        let o = d.add_bit((w >> i) & 1 != 0);
                        if i < 10 {
                            ok &= matches!(o, Ok(None));
                        } else {
                            ok &= o == verdict[w as usize];
                        }
                    }
                    if !ok && bad.len() < 2 {
                        bad.push((*n, *p, w));
                    }
                }
                bad
            });
            match r {
                Ok(v) => v.into_iter(),
                Err(_) => vec![(*n, *p, 0u16)].into_iter(),
            }
        })
        .collect();
    run.eval(2047 * 2048);
    run.nontrivial_enum(2046 * 2048);
    for (n, p, w) in fails.iter().take(24) {
        let mut ops = word_ops(*p, *n);
        ops.push(BitOp::Clear);
        ops.extend(word_ops(*w, 11));
        c06_eval_ops(run, &ops);
    }
    run.total_violating_cases += fails.len().saturating_sub(24) as u64;
    run.part("clear_from_every_partial_state", json!({"cases": 2047u64 * 2048, "failing(sampled)": fails.len()}));
    {
        let mut ops = word_ops(0b10110, 5);
        ops.push(BitOp::Clear);
        ops.extend(word_ops(frame::encode(0xF0), 11));
        run.sample(|| json!({"layer":"partial+clear+frame","ops":ops_compact(&ops)}));
    }
    // (c2) state exploration: BFS over {bit 0, bit 1, clear()} with states named by the Debug
    // rendering of Ps2Decoder (register, bit count and anything a change may add)
    {
        let alphabet = [BitOp::Bit(false), BitOp::Bit(true), BitOp::Clear];
        let cap = run.tier.pick(20_000usize, 300_000usize);
        let out = crate::explore::bfs(3, cap, 8, |h| {
            let ops: Vec<BitOp> = h.iter().map(|i| alphabet[*i as usize]).collect();
            let fp = guard(|| {
                let mut d = Ps2Decoder::new();
                for o in &ops {
                    match o {
                        BitOp::Bit(b) => { let _ = d.add_bit(*b); }
                        BitOp::Clear => { let _ = d.clear(); }
                    }
                }
                format!("{:?}", d)
            })?;
            let mut probe = Run::probe("C06");
            c06_eval_ops(&mut probe, &ops);
            Ok((fp, probe.violations.is_empty()))
        });
        run.eval(out.histories_run);
        run.nontrivial_enum(out.histories_run);
        for f in &out.failures {
            let ops: Vec<BitOp> = f.iter().map(|i| alphabet[*i as usize]).collect();
            c06_eval_ops(run, &ops);
        }
        run.part("state_exploration", json!({"alphabet": ["bit0", "bit1", "clear"], "states_found": out.states, "state_cap": cap, "closed": out.closed, "detail": crate::explore::outcome_json(&out), "max_depth": out.max_depth, "histories_replayed": out.histories_run, "failing(sampled)": out.failures.len()}));
    }

    // (c3) repeat-then-perturb: a keyboard with a key held down sends the same frame again
    // and again (typematic repeat). The same frame k times, then optionally an abandoned
    // partial frame + clear(), then the frame again / each single-bit corruption of it /
    // another valid frame: every verdict must still be the whole-word verdict.
    {
        let reps: Vec<u16> = vec![frame::encode(0x1C), frame::encode(0xF0), frame::encode(0xE0), frame::encode(0x00), frame::encode(0xFF), frame::encode(0x5A), 0x7FF, 0x000, frame::encode(0x1C) ^ 0x200];
        let mut n = 0u64;
        for &w in &reps {
            for k in 1..=6usize {
                let mut perturbs: Vec<Vec<BitOp>> = vec![vec![]];
                for nb in 1..=10usize {
                    for inv in [false, true] {
                        let mut v = word_ops(if inv { !w & 0x7FF } else { w }, nb);
                        v.push(BitOp::Clear);
                        perturbs.push(v);
                    }
                }
                let mut finals: Vec<u16> = vec![w, frame::encode(0x1A)];
                finals.extend((0..11).map(|i| w ^ (1 << i)));
                for p in &perturbs {
                    for &f in &finals {
                        let mut ops: Vec<BitOp> = Vec::new();
                        for _ in 0..k {
                            ops.extend(word_ops(w, 11));
                        }
                        ops.extend(p.iter().copied());
                        ops.extend(word_ops(f, 11));
                        c06_eval_ops(run, &ops);
                        n += 1;
                    }
                }
            }
        }
        run.nontrivial_enum(n);
        run.part("repeat_then_perturb", json!({"repeated_frames": reps.len(), "repeat_counts": "1..=6", "cases": n}));
        let mut ex = Vec::new();
        for _ in 0..3 { ex.extend(word_ops(frame::encode(0x1C), 11)); }
        ex.push(BitOp::Bit(false)); ex.push(BitOp::Clear);
        ex.extend(word_ops(frame::encode(0x1C) ^ 1, 11));
        run.sample(|| json!({"layer":"repeat-then-perturb","ops":ops_compact(&ex)}));
    }

    // (c4) deep-history families (fast pre-check Ps2Decoder vs bit model, failures re-evaluated):
    //   G3a  X^n R^k X C(X): frame held for n in {255,256,300} repeats, k in 1..16 rejected
    //        frames, the frame again, then each single-bit corruption of it
    //   G3b  noisy line: 6000 frames of typing traffic with every r-th frame corrupted and every
    //        t-th frame abandoned half-way + clear(), then probes (bad start / stop / parity)
    {
        use rayon::prelude::*;
        let fast = |ops: &[BitOp]| -> bool {
            guard(|| {
                let mut d = Ps2Decoder::new();
                let mut m = BitModel::relational();
                for o in ops {
                    match o {
                        BitOp::Clear => { d.clear(); m.clear(); }
                        BitOp::Bit(b) => { if d.add_bit(*b) != m.add_bit(*b) { return false; } }
                    }
                }
                true
            }).unwrap_or(false)
        };
        let mut fam: Vec<Vec<BitOp>> = Vec::new();
        for x in [frame::encode(0x1C), frame::encode(0xF0), frame::encode(0x00), frame::encode(0xAA)] {
            for n in [255usize, 256, 300] {
                let held: Vec<BitOp> = (0..n).flat_map(|_| word_ops(x, 11)).collect();
                for r in [x ^ 0x200, 0x7FF, 0x000] {
                    for k in 1..=16usize {
                        for i in 0..11 {
                            let mut v = held.clone();
                            for _ in 0..k { v.extend(word_ops(r, 11)); }
                            v.extend(word_ops(x, 11));
                            v.extend(word_ops(x ^ (1 << i), 11));
                            v.extend(word_ops(x, 11));
                            fam.push(v);
                        }
                    }
                }
            }
        }
        let g3a = fam.len();
        let traffic: Vec<u8> = vec![0x12, 0x1C, 0xF0, 0x1C, 0x1C, 0x1C, 0xE0, 0x75, 0xE0, 0xF0, 0x75, 0xF0, 0x12, 0x58, 0xF0, 0x58, 0x77, 0x77, 0xF0, 0x77];
        for r in [0usize, 100, 64, 33, 16, 10, 6, 3] {
            for t in [0usize, 100, 33, 10] {
                let mut v: Vec<BitOp> = Vec::new();
                for i in 0..6000usize {
                    let w = frame::encode(traffic[i % traffic.len()]);
                    if t > 0 && i % t == t / 2 {
                        v.extend(word_ops(w, 1 + i % 10));
                        v.push(BitOp::Clear);
                    }
                    if r > 0 && i % r == 1 {
                        v.extend(word_ops(w ^ (1 << (i % 11)), 11));
                    } else {
                        v.extend(word_ops(w, 11));
                    }
                    if i % 1024 == 1023 {
                        // probes at window boundaries
                        v.extend(word_ops(w | 1, 11));
                        v.extend(word_ops(w, 11));
                        v.extend(word_ops(w & !0x400, 11));
                        v.extend(word_ops(w, 11));
                    }
                }
                fam.push(v);
            }
        }
        let g3b = fam.len() - g3a;
        // G3c: U1^i U2^j with whole frames / abandoned partial frames as units, i, j up to 2200
        for v in long_unit_grammar() {
            fam.push(v);
        }
        let bad: Vec<usize> = fam.par_iter().enumerate().filter_map(|(i, v)| if fast(v) { None } else { Some(i) }).collect();
        run.eval(fam.len() as u64);
        run.nontrivial_enum(fam.len() as u64);
        for i in bad.iter().take(6) {
            c06_eval_ops(run, &fam[*i]);
        }
        // the Keyboard path on the noisy-line workloads (few, long)
        for v in fam[g3a..].iter().step_by(3) {
            c06_eval_ops(run, v);
        }
        run.total_violating_cases += bad.len().saturating_sub(6) as u64;
        run.part("deep_history_families", json!({"X^n.R^k.X.C(X)": g3a, "noisy_line_workloads(6000 frames)": g3b, "U1^i.U2^j(units: frames, partial frame + clear; i,j up to 2200; burst cycles; R^a.X^b.P for every a<=16, b<=48; two-scale (U1^p.U2^b)^6 with p up to 1024)": fam.len() - g3a - g3b, "failing": bad.len()}));
    }

    // (c') pumping: the same frame / partial frame + clear() repeated far beyond 2^16 bits
    let mut bits = 0u64;
    let pats: Vec<Vec<BitOp>> = vec![
        word_ops(frame::encode(0x1C), 11),
        word_ops(frame::encode(0x1C) ^ 0x200, 11),
        word_ops(0x7FF, 11),
        word_ops(0x000, 11),
        { let mut v = word_ops(0b1011, 4); v.push(BitOp::Clear); v.extend(word_ops(frame::encode(0xF0), 11)); v },
        { let mut v = word_ops(frame::encode(0xE0) ^ 0x400, 11); v.extend(word_ops(frame::encode(0xE0), 11)); v },
        vec![BitOp::Bit(true)],
        vec![BitOp::Bit(false)],
        vec![BitOp::Bit(true), BitOp::Clear],
    ];
    for pat in &pats {
        let reps = 80_000 / pat.len() + 1;
        let ops: Vec<BitOp> = pat.iter().copied().cycle().take(reps * pat.len()).collect();
        bits += ops.len() as u64;
        c06_eval_ops(run, &ops);
        run.nontrivial_fp(fp(&("pump", ops_compact(pat))));
    }
    run.part("pumping", json!({"ops_fed": bits, "patterns": pats.iter().map(|p| ops_compact(p)).collect::<Vec<_>>()}));
    run.exhaustive = true;

    // (e) thorough: triples on a stratified sample (first two frames from each class)
    if run.tier == crate::report::Tier::Thorough {
        let reps: Vec<u16> = vec![frame::encode(0x00), frame::encode(0xFF), frame::encode(0xE0), 0x000, 0x7FF, 0x001, 0x3FE, frame::encode(0x1C) ^ 0x200, frame::encode(0x55) ^ 0x002, 0x400, 0x555, 0x2AA];
        let mut n = 0u64;
        for a in &reps {
            for b in &reps {
                for c in 0..0x800u16 {
                    let mut ops = word_ops(*a, 11);
                    ops.extend(word_ops(*b, 11));
                    ops.extend(word_ops(c, 11));
                    c06_eval_ops(run, &ops);
                    n += 1;
                }
            }
        }
        run.nontrivial_enum(n);
        run.part("frame_triples", json!({"triples": n}));
    }

    // (d) random bit streams with clear()
    let cases = run.tier.pick(5_000u32, 500_000u32);
    let stats = RefCell::new((0u64, 0u64, Vec::<u64>::new(), 0u64, 0u64, Vec::<Value>::new()));
    let outcome = run_prop(run.seed, 0xC06, cases, gen::bit_stream(40), |chunks, counting| {
        let ops: Vec<BitOp> = chunks.iter().flat_map(gen::bit_chunk_ops).collect();
        let mut probe = Run::probe("C06");
        c06_eval_ops(&mut probe, &ops);
        if counting {
            let mut st = stats.borrow_mut();
            st.0 += 1;
            st.1 += ops.len() as u64;
            // classify with the model
            let mut m = BitModel::relational();
            let (mut rej_then_acc, mut last_rej, mut clear_pending) = (false, false, false);
            for o in &ops {
                match o {
                    BitOp::Clear => {
                        if !m.pending.is_empty() {
                            clear_pending = true;
                        }
                        m.clear();
                    }
                    BitOp::Bit(b) => match m.add_bit(*b) {
                        Err(_) => last_rej = true,
                        Ok(Some(_)) => {
                            if last_rej {
                                rej_then_acc = true;
                            }
                            last_rej = false;
                        }
                        Ok(None) => {}
                    },
                }
            }
            if rej_then_acc { st.3 += 1; }
            if clear_pending { st.4 += 1; }
            if rej_then_acc || clear_pending { st.2.push(fp(&ops_compact(&ops))); }
            if st.5.len() < 2 && ops.len() > 30 {
                st.5.push(json!({"layer":"random-bit-stream","ops":ops_compact(&ops[..ops.len().min(90)])}));
            }
        }
        match probe.violations.keys().next() {
            None => Ok(()),
            Some(s) => Err(s.clone()),
        }
    });
    let st = stats.into_inner();
    run.eval(st.0);
    for f in &st.2 {
        run.nontrivial_fp(*f);
    }
    for s in st.5 {
        run.sample(|| s);
    }
    run.part("random_bit_streams", json!({"cases": st.0, "ops": st.1, "classes": {"rejected_then_accepted_frame": st.3, "clear_with_pending_bits": st.4}}));
    if let Some((chunks, _)) = outcome.failure {
        let ops: Vec<BitOp> = chunks.iter().flat_map(gen::bit_chunk_ops).collect();
        c06_eval_ops(run, &ops);
    }
}

pub fn replay(run: &mut Run, case: &Value) -> bool {
    match case["kind"].as_str().unwrap_or("") {
        "word" => {
            let w = case["word"].as_u64().unwrap_or(0) as u16;
            let p = case["pending"].as_u64().unwrap_or(0) as usize;
            c05_eval_word(run, w, p);
            true
        }
        "word_after_run" => {
            c05_eval_after_run(run, case["frame"].as_u64().unwrap_or(0) as u16, case["count"].as_u64().unwrap_or(0) as usize, case["word"].as_u64().unwrap_or(0) as u16);
            true
        }
        "word_after" => {
            c05_eval_after(run, case["prev"].as_u64().unwrap_or(0) as u16, case["word"].as_u64().unwrap_or(0) as u16);
            true
        }
        "bits" => {
            let ops = ops_parse(case["ops"].as_str().unwrap_or(""));
            c06_eval_ops(run, &ops);
            true
        }
        _ => false,
    }
}
