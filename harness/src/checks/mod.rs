pub mod c20;
pub mod events;
pub mod frame;
pub mod kbd;
pub mod layouts;
pub mod sc;

use crate::report::Run;
use serde_json::Value;

pub const ALL_IDS: [&str; 20] = [
    "C01", "C02", "C03", "C04", "C05", "C06", "C07", "C08", "C09", "C10", "C11", "C12", "C13",
    "C14", "C15", "C16", "C17", "C18", "C19", "C20",
];

pub fn run_check(id: &str, run: &mut Run) -> bool {
    match id {
        "C01" => sc::c01(run),
        "C02" => sc::c02(run),
        "C03" => layouts::c03(run),
        "C09" => layouts::c09(run),
        "C10" => layouts::c10(run),
        "C11" => layouts::c11(run),
        "C12" => layouts::c12(run),
        "C15" => layouts::c15(run),
        "C16" => layouts::c16(run),
        "C17" => layouts::c17(run),
        "C04" => events::c04(run),
        "C14" => events::c14(run),
        "C05" => frame::c05(run),
        "C06" => frame::c06(run),
        "C07" => sc::c07(run),
        "C08" => kbd::c08(run),
        "C18" => kbd::c18(run),
        "C13" => sc::c13(run),
        "C19" => sc::c19(run),
        "C20" => c20::c20(run),
        _ => return false,
    }
    true
}

/// Re-run exactly one saved case through the plain evaluators (no proptest, no fuzzer).
pub fn replay_case(_id: &str, run: &mut Run, case: &Value) -> bool {
    sc::replay(run, case) || frame::replay(run, case) || events::replay(run, case) || layouts::replay(run, case) || kbd::replay(run, case) || c20::replay(run, case)
}
