pub mod sc;

use crate::report::Run;
use serde_json::Value;

pub const ALL_IDS: [&str; 20] = [
    "C01", "C02", "C03", "C04", "C05", "C06", "C07", "C08", "C09", "C10", "C11", "C12", "C13",
    "C14", "C15", "C16", "C17", "C18", "C19", "C20",
];

pub fn run_check(id: &str, run: &mut Run) -> bool {
    match id {
        "C01" => sc::c01(run),
        "C02" => sc::c02(run),
        "C07" => sc::c07(run),
        "C13" => sc::c13(run),
        "C19" => sc::c19(run),
        _ => return false,
    }
    true
}

/// Re-run exactly one saved case through the plain evaluators (no proptest, no fuzzer).
pub fn replay_case(_id: &str, run: &mut Run, case: &Value) -> bool {
    sc::replay(run, case)
}
