//! Constructive, weighted generators (proptest strategies) for the random / stateful layers.
//! Every random choice is made by proptest so that shrinking and seeded replay work.
use crate::model::frame;
use crate::model::sc::{self, Pfx};
use crate::prop::idx;
use crate::universe::*;
use proptest::prelude::*;

// ---------------------------------------------------------------------------------------
// Scancode streams
// ---------------------------------------------------------------------------------------
#[derive(Clone, Debug)]
pub enum ScChunk {
    /// well-formed make/break of a key the reference table defines for this set
    Key { ti: u16, up: bool },
    /// well-formed sequence whose code byte is undefined in that prefix context
    Undefined { pfx: u8, up: bool, ci: u16 },
    /// lone prefixes and prefixes in code position
    Prefixy(u8),
    /// one uniformly random byte
    Raw(u8),
    /// status / protocol bytes
    Status(u8),
    /// typematic repeat: the make code of one key sent n times, then its break code
    Typematic { ti: u16, n: u8 },
    /// a burst of n identical undefined sequences (line noise / unsupported key held down)
    ErrorBurst { pfx: u8, ci: u16, n: u8 },
}

const PREFIXY: &[&[u8]] = &[
    &[0xE0],
    &[0xE1],
    &[0xF0],
    &[0xE0, 0xE0],
    &[0xE0, 0xE1],
    &[0xE1, 0xE0],
    &[0xE1, 0xE1],
    &[0xF0, 0xF0],
    &[0xF0, 0xE0],
    &[0xF0, 0xE1],
    &[0xE0, 0xF0],
    &[0xE1, 0xF0],
    &[0xE0, 0xF0, 0xF0],
    &[0xE0, 0xF0, 0xE0],
    &[0xE1, 0xF0, 0xE1],
    &[0xE1, 0xF0, 0xF0],
];
const STATUS: &[u8] = &[0x00, 0xAA, 0xFA, 0xEE, 0xFC, 0xFD, 0xFE, 0xFF];

fn pfx_of(i: u8) -> Pfx {
    sc::PFXS[(i % 3) as usize]
}

pub fn sc_chunk_bytes(set2: bool, c: &ScChunk) -> Vec<u8> {
    match c {
        ScChunk::Key { ti, up } => {
            // keys encodable in this set
            let keys: Vec<KeyCode> = sc::TABLE
                .iter()
                .filter(|(_, s1, s2)| if set2 { s2.is_some() } else { s1.is_some() })
                .map(|(k, _, _)| *k)
                .collect();
            let k = keys[idx(*ti, keys.len())];
            let st = if *up { KeyState::Up } else { KeyState::Down };
            let enc = if set2 { sc::set2_encode(k, st) } else { sc::set1_encode(k, st) };
            match enc {
                Some(v) => v,
                None => {
                    // status codes have no Down/Up form: send the one-shot byte itself
                    sc::set2_encode(k, KeyState::SingleShot).unwrap_or_default()
                }
            }
        }
        ScChunk::Undefined { pfx, up, ci } => {
            let p = pfx_of(*pfx);
            let mut v = Vec::new();
            if let Some(b) = p.byte() {
                v.push(b);
            }
            if set2 {
                let undefined: Vec<u8> = (0..=255u8)
                    .filter(|c| sc::set2_lookup(p, *c).is_none())
                    .filter(|c| !matches!(*c, 0xE0 | 0xE1 | 0xF0))
                    .collect();
                if *up {
                    v.push(0xF0);
                }
                v.push(undefined[idx(*ci, undefined.len())]);
            } else {
                let undefined: Vec<u8> = (0..=0x7Fu8)
                    .filter(|c| sc::set1_lookup(p, *c).is_none())
                    .filter(|c| !(p == Pfx::None && *up && matches!(*c, 0x60 | 0x61)))
                    .collect();
                let c = undefined[idx(*ci, undefined.len())];
                v.push(if *up { c | 0x80 } else { c });
            }
            v
        }
        ScChunk::Prefixy(i) => PREFIXY[(*i as usize) % PREFIXY.len()].to_vec(),
        ScChunk::Typematic { ti, n } => {
            let mut v = Vec::new();
            for _ in 0..(2 + *n as usize % 40) {
                v.extend(sc_chunk_bytes(set2, &ScChunk::Key { ti: *ti, up: false }));
            }
            v.extend(sc_chunk_bytes(set2, &ScChunk::Key { ti: *ti, up: true }));
            v
        }
        ScChunk::ErrorBurst { pfx, ci, n } => {
            let one = sc_chunk_bytes(set2, &ScChunk::Undefined { pfx: *pfx, up: false, ci: *ci });
            let mut v = Vec::new();
            for _ in 0..(2 + *n as usize % 20) {
                v.extend(one.iter().copied());
            }
            v
        }
        ScChunk::Raw(b) => vec![*b],
        ScChunk::Status(i) => vec![STATUS[(*i as usize) % STATUS.len()]],
    }
}

pub fn sc_chunk() -> impl Strategy<Value = ScChunk> {
    prop_oneof![
        41 => (any::<u16>(), any::<bool>()).prop_map(|(ti, up)| ScChunk::Key { ti, up }),
        13 => (0u8..3, any::<bool>(), any::<u16>()).prop_map(|(pfx, up, ci)| ScChunk::Undefined { pfx, up, ci }),
        4 => (any::<u16>(), any::<u8>()).prop_map(|(ti, n)| ScChunk::Typematic { ti, n }),
        2 => (0u8..3, any::<u16>(), any::<u8>()).prop_map(|(pfx, ci, n)| ScChunk::ErrorBurst { pfx, ci, n }),
        15 => (0u8..PREFIXY.len() as u8).prop_map(ScChunk::Prefixy),
        20 => any::<u8>().prop_map(ScChunk::Raw),
        5 => (0u8..STATUS.len() as u8).prop_map(ScChunk::Status),
    ]
}

pub fn sc_stream(max_chunks: usize) -> impl Strategy<Value = Vec<ScChunk>> {
    prop::collection::vec(sc_chunk(), 0..=max_chunks)
}

pub fn sc_stream_bytes(set2: bool, chunks: &[ScChunk]) -> Vec<u8> {
    chunks.iter().flat_map(|c| sc_chunk_bytes(set2, c)).collect()
}

/// pure garbage for the resynchronisation checks
pub fn garbage(max: usize) -> impl Strategy<Value = Vec<u8>> {
    prop::collection::vec(
        prop_oneof![
            50 => any::<u8>(),
            20 => prop::sample::select(vec![0xE0u8, 0xE1, 0xF0]),
            30 => 0u8..0x90,
        ],
        0..=max,
    )
}

// ---------------------------------------------------------------------------------------
// Bit streams
// ---------------------------------------------------------------------------------------
#[derive(Clone, Copy, Debug, PartialEq, Eq)]
pub enum BitOp {
    Bit(bool),
    Clear,
}

#[derive(Clone, Debug)]
pub enum BitChunk {
    Valid(u8),
    Flipped { b: u8, f1: u8, f2: Option<u8> },
    Rand11(u16),
    PartialClear { n: u8, bits: u16 },
    ClearBoundary,
    RandBits { n: u8, bits: u32 },
    /// n identical corrupted frames in a row (a noisy line), then the clean frame
    RejectBurst { b: u8, f1: u8, n: u8 },
}

pub fn bit_chunk_ops(c: &BitChunk) -> Vec<BitOp> {
    let word = |w: u16, n: usize| (0..n).map(move |i| BitOp::Bit((w >> i) & 1 != 0));
    match c {
        BitChunk::Valid(b) => word(frame::encode(*b), 11).collect(),
        BitChunk::Flipped { b, f1, f2 } => {
            let mut w = frame::encode(*b);
            w ^= 1 << (*f1 % 11);
            if let Some(f) = f2 {
                w ^= 1 << (*f % 11);
            }
            word(w, 11).collect()
        }
        BitChunk::Rand11(w) => word(*w & 0x7FF, 11).collect(),
        BitChunk::PartialClear { n, bits } => {
            let n = 1 + (*n as usize % 10);
            let mut v: Vec<BitOp> = word(*bits, n).collect();
            v.push(BitOp::Clear);
            v
        }
        BitChunk::ClearBoundary => vec![BitOp::Clear],
        BitChunk::RejectBurst { b, f1, n } => {
            let bad = frame::encode(*b) ^ (1 << (*f1 % 11));
            let mut v = Vec::new();
            for _ in 0..(2 + *n as usize % 12) {
                v.extend(word(bad, 11));
            }
            v.extend(word(frame::encode(*b), 11));
            v
        }
        BitChunk::RandBits { n, bits } => {
            let n = 1 + (*n as usize % 30);
            (0..n).map(|i| BitOp::Bit((bits >> i) & 1 != 0)).collect()
        }
    }
}

pub fn bit_chunk() -> impl Strategy<Value = BitChunk> {
    prop_oneof![
        40 => any::<u8>().prop_map(BitChunk::Valid),
        25 => (any::<u8>(), 0u8..11, prop::option::of(0u8..11)).prop_map(|(b, f1, f2)| BitChunk::Flipped { b, f1, f2 }),
        10 => (0u16..0x800).prop_map(BitChunk::Rand11),
        15 => (0u8..10, 0u16..0x400).prop_map(|(n, bits)| BitChunk::PartialClear { n, bits }),
        5 => Just(BitChunk::ClearBoundary),
        5 => (0u8..30, any::<u32>()).prop_map(|(n, bits)| BitChunk::RandBits { n, bits }),
        4 => (any::<u8>(), 0u8..11, any::<u8>()).prop_map(|(b, f1, n)| BitChunk::RejectBurst { b, f1, n }),
    ]
}

pub fn bit_stream(max_chunks: usize) -> impl Strategy<Value = Vec<BitChunk>> {
    prop::collection::vec(bit_chunk(), 0..=max_chunks)
}

// ---------------------------------------------------------------------------------------
// Event histories
// ---------------------------------------------------------------------------------------
#[derive(Clone, Debug)]
pub enum EvOp {
    Ev { ki: u16, st: u8 },
    /// one of the nine modifier / lock keys
    ModEv { mi: u8, st: u8 },
    /// RControl2 down, NumpadLock down, RControl2 up, NumpadLock up
    Pause,
    SetMode(bool),
    ChangeLayout(u8),
    /// key held down: n repeated Down events, then Up
    Held { ki: u16, n: u8 },
    /// a modifier key held down with typematic repeat (n Down events), optionally released
    ModHeld { mi: u8, n: u8, release: bool },
}

pub const MOD_KEYS: [KeyCode; 9] = [
    KeyCode::LShift,
    KeyCode::RShift,
    KeyCode::LControl,
    KeyCode::RControl,
    KeyCode::LAlt,
    KeyCode::RAltGr,
    KeyCode::RControl2,
    KeyCode::CapsLock,
    KeyCode::NumpadLock,
];

#[derive(Clone, Copy, Debug, PartialEq, Eq)]
pub enum FlatEv {
    Key(KeyCode, KeyState),
    SetMode(HandleControl),
    ChangeLayout(u8),
}

pub fn ev_op_flat(op: &EvOp) -> Vec<FlatEv> {
    let st = |s: u8| KEY_STATES[(s % 3) as usize];
    match op {
        EvOp::Ev { ki, st: s } => vec![FlatEv::Key(ALL_KEYS[idx(*ki, ALL_KEYS.len())], st(*s))],
        EvOp::ModEv { mi, st: s } => vec![FlatEv::Key(MOD_KEYS[(*mi as usize) % 9], st(*s))],
        EvOp::Pause => vec![
            FlatEv::Key(KeyCode::RControl2, KeyState::Down),
            FlatEv::Key(KeyCode::NumpadLock, KeyState::Down),
            FlatEv::Key(KeyCode::RControl2, KeyState::Up),
            FlatEv::Key(KeyCode::NumpadLock, KeyState::Up),
        ],
        EvOp::Held { ki, n } => {
            let k = ALL_KEYS[idx(*ki, ALL_KEYS.len())];
            let mut v = vec![FlatEv::Key(k, KeyState::Down); 2 + (*n as usize % 30)];
            v.push(FlatEv::Key(k, KeyState::Up));
            v
        }
        EvOp::ModHeld { mi, n, release } => {
            let k = MOD_KEYS[(*mi as usize) % 9];
            let mut v = vec![FlatEv::Key(k, KeyState::Down); 2 + (*n as usize % 12)];
            if *release {
                v.push(FlatEv::Key(k, KeyState::Up));
            }
            v
        }
        EvOp::SetMode(m) => vec![FlatEv::SetMode(if *m {
            HandleControl::MapLettersToUnicode
        } else {
            HandleControl::Ignore
        })],
        EvOp::ChangeLayout(i) => vec![FlatEv::ChangeLayout(*i)],
    }
}

pub fn ev_op(n_layouts: u8) -> impl Strategy<Value = EvOp> {
    prop_oneof![
        40 => (any::<u16>(), 0u8..3).prop_map(|(ki, st)| EvOp::Ev { ki, st }),
        // Down/Up weighted over SingleShot for modifier keys
        42 => (0u8..9, prop_oneof![3 => Just(0u8), 3 => Just(1u8), 1 => Just(2u8)]).prop_map(|(mi, st)| EvOp::ModEv { mi, st }),
        6 => Just(EvOp::Pause),
        4 => (any::<u16>(), any::<u8>()).prop_map(|(ki, n)| EvOp::Held { ki, n }),
        4 => (0u8..9, any::<u8>(), any::<bool>()).prop_map(|(mi, n, release)| EvOp::ModHeld { mi, n, release }),
        6 => any::<bool>().prop_map(EvOp::SetMode),
        6 => (0u8..n_layouts).prop_map(EvOp::ChangeLayout),
    ]
}

pub fn ev_history(max: usize, n_layouts: u8) -> impl Strategy<Value = Vec<EvOp>> {
    prop::collection::vec(ev_op(n_layouts), 0..=max)
}

// ---------------------------------------------------------------------------------------
// Keyboard-level API operation sequences
// ---------------------------------------------------------------------------------------
#[derive(Clone, Copy, Debug, PartialEq, Eq)]
pub enum Op {
    Bit(bool),
    Word(u16),
    Byte(u8),
    Event(KeyCode, KeyState),
    Clear,
    SetCtrl(HandleControl),
}

#[derive(Clone, Debug)]
pub enum OpChunk {
    /// scancode chunk delivered as bytes
    ScBytes(ScChunk),
    /// scancode chunk delivered as valid frames through add_word
    ScWords(ScChunk),
    /// scancode chunk delivered bit by bit (valid frames)
    ScBits(ScChunk),
    /// a frame-level chunk (noise, corrupted frames, partial frame + clear) bit by bit
    Bits(BitChunk),
    /// an arbitrary word (also with bits above bit 10 when `wide`)
    Word { w: u16, wide: bool },
    /// a corrupted frame of a scancode byte through add_word
    BadWord { b: u8, f1: u8 },
    Ev(EvOp),
    Clear,
}

pub fn op_chunk_ops(set2: bool, c: &OpChunk) -> Vec<Op> {
    match c {
        OpChunk::ScBytes(s) => sc_chunk_bytes(set2, s).into_iter().map(Op::Byte).collect(),
        OpChunk::ScWords(s) => sc_chunk_bytes(set2, s)
            .into_iter()
            .map(|b| Op::Word(frame::encode(b)))
            .collect(),
        OpChunk::ScBits(s) => sc_chunk_bytes(set2, s)
            .into_iter()
            .flat_map(|b| {
                let w = frame::encode(b);
                (0..11).map(move |i| Op::Bit((w >> i) & 1 != 0))
            })
            .collect(),
        OpChunk::Bits(b) => bit_chunk_ops(b)
            .into_iter()
            .map(|o| match o {
                BitOp::Bit(x) => Op::Bit(x),
                BitOp::Clear => Op::Clear,
            })
            .collect(),
        OpChunk::Word { w, wide } => vec![Op::Word(if *wide { *w } else { *w & 0x7FF })],
        OpChunk::BadWord { b, f1 } => vec![Op::Word(frame::encode(*b) ^ (1 << (*f1 % 11)))],
        OpChunk::Ev(e) => ev_op_flat(e)
            .into_iter()
            .filter_map(|f| match f {
                FlatEv::Key(k, s) => Some(Op::Event(k, s)),
                FlatEv::SetMode(m) => Some(Op::SetCtrl(m)),
                FlatEv::ChangeLayout(_) => None,
            })
            .collect(),
        OpChunk::Clear => vec![Op::Clear],
    }
}

/// `wide_words`: allow words with bits above bit 10 (outside the documented precondition of
/// add_word; used only by C08).
pub fn op_chunk(wide_words: bool) -> impl Strategy<Value = OpChunk> {
    prop_oneof![
        15 => sc_chunk().prop_map(OpChunk::ScBytes),
        12 => sc_chunk().prop_map(OpChunk::ScWords),
        14 => sc_chunk().prop_map(OpChunk::ScBits),
        20 => bit_chunk().prop_map(OpChunk::Bits),
        8 => (any::<u16>(), any::<bool>()).prop_map(move |(w, wide)| OpChunk::Word { w, wide: wide && wide_words }),
        8 => (prop::sample::select(vec![0xE0u8, 0xE1, 0xF0, 0x1C, 0x12, 0x14, 0x1D, 0x2A, 0x77, 0x45]), 0u8..11).prop_map(|(b, f1)| OpChunk::BadWord { b, f1 }),
        18 => ev_op(1).prop_map(OpChunk::Ev),
        5 => Just(OpChunk::Clear),
    ]
}

pub fn op_seq(max_chunks: usize, wide_words: bool) -> impl Strategy<Value = Vec<OpChunk>> {
    prop::collection::vec(op_chunk(wide_words), 0..=max_chunks)
}

pub fn ops_flat(set2: bool, chunks: &[OpChunk]) -> Vec<Op> {
    chunks.iter().flat_map(|c| op_chunk_ops(set2, c)).collect()
}

// ---------------------------------------------------------------------------------------
// JSON renderings of flat ops (for replay files)
// ---------------------------------------------------------------------------------------
use serde_json::{json, Value};

pub fn op_json(o: &Op) -> Value {
    match o {
        Op::Bit(b) => json!({"bit": *b as u8}),
        Op::Word(w) => json!({"word": w}),
        Op::Byte(b) => json!({"byte": b}),
        Op::Event(k, s) => json!({"event": [key_name(*k), state_name(*s)]}),
        Op::Clear => json!("clear"),
        Op::SetCtrl(m) => json!({"set_ctrl": mode_name(*m)}),
    }
}
pub fn op_from_json(v: &Value) -> Option<Op> {
    if v == "clear" {
        return Some(Op::Clear);
    }
    let o = v.as_object()?;
    if let Some(b) = o.get("bit") {
        return Some(Op::Bit(b.as_u64()? != 0));
    }
    if let Some(w) = o.get("word") {
        return Some(Op::Word(w.as_u64()? as u16));
    }
    if let Some(b) = o.get("byte") {
        return Some(Op::Byte(b.as_u64()? as u8));
    }
    if let Some(e) = o.get("event") {
        let a = e.as_array()?;
        return Some(Op::Event(
            key_by_name(a.first()?.as_str()?)?,
            state_by_name(a.get(1)?.as_str()?)?,
        ));
    }
    if let Some(m) = o.get("set_ctrl") {
        return Some(Op::SetCtrl(mode_by_name(m.as_str()?)?));
    }
    None
}

pub fn flat_ev_json(f: &FlatEv) -> Value {
    match f {
        FlatEv::Key(k, s) => json!([key_name(*k), state_name(*s)]),
        FlatEv::SetMode(m) => json!({"set_ctrl": mode_name(*m)}),
        FlatEv::ChangeLayout(i) => json!({"change_layout": i}),
    }
}
pub fn flat_ev_from_json(v: &Value) -> Option<FlatEv> {
    if let Some(a) = v.as_array() {
        return Some(FlatEv::Key(
            key_by_name(a.first()?.as_str()?)?,
            state_by_name(a.get(1)?.as_str()?)?,
        ));
    }
    let o = v.as_object()?;
    if let Some(m) = o.get("set_ctrl") {
        return Some(FlatEv::SetMode(mode_by_name(m.as_str()?)?));
    }
    if let Some(i) = o.get("change_layout") {
        return Some(FlatEv::ChangeLayout(i.as_u64()? as u8));
    }
    None
}
