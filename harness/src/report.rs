//! Run bookkeeping: counters, samples, violations, known findings, evidence and replay files.
use serde_json::{json, Map, Value};
use std::cell::RefCell;
use std::collections::hash_map::DefaultHasher;
use std::collections::{BTreeMap, BTreeSet, HashSet};
use std::hash::{Hash, Hasher};
use std::panic::{self, AssertUnwindSafe};
use std::path::PathBuf;
use std::time::Instant;

pub fn verif_dir() -> PathBuf {
    std::env::var("PCKB_VERIF_DIR")
        .map(PathBuf::from)
        .unwrap_or_else(|_| PathBuf::from("/verif"))
}

/// where evidence and replay files are written (sensitivity runs against scratch copies must
/// not overwrite the evidence of the real tree)
pub fn out_dir() -> PathBuf {
    std::env::var("PCKB_OUT_DIR")
        .map(PathBuf::from)
        .unwrap_or_else(|_| verif_dir().join("evidence"))
}

#[derive(Clone, Copy, Debug, PartialEq, Eq)]
pub enum Tier {
    Quick,
    Thorough,
}
impl Tier {
    pub fn name(self) -> &'static str {
        match self {
            Tier::Quick => "quick",
            Tier::Thorough => "thorough",
        }
    }
    /// pick a budget by tier
    pub fn pick<T>(self, quick: T, thorough: T) -> T {
        match self {
            Tier::Quick => quick,
            Tier::Thorough => thorough,
        }
    }
}

#[derive(Clone, Debug)]
pub struct Violation {
    /// canonical, space-free: <component>:<context>:<input>:want=<..>:got=<..>
    pub sig: String,
    /// human sentence
    pub what: String,
    /// the minimal case, re-runnable by `--replay`
    pub case: Value,
}

pub fn fp<T: Hash>(t: &T) -> u64 {
    let mut h = DefaultHasher::new();
    t.hash(&mut h);
    h.finish()
}

// ---------------------------------------------------------------------------------------
// Panic capture: code under test runs under `guard`; the default hook is silenced so that a
// panic storm in an exhaustive loop does not flood stderr.
// ---------------------------------------------------------------------------------------
thread_local! {
    static LAST_PANIC: RefCell<Option<String>> = RefCell::new(None);
    static IN_GUARD: std::cell::Cell<u32> = std::cell::Cell::new(0);
}

pub fn install_panic_hook() {
    let default = panic::take_hook();
    panic::set_hook(Box::new(move |info| {
        let loc = info
            .location()
            .map(|l| format!("{}:{}", l.file(), l.line()))
            .unwrap_or_default();
        let msg = if let Some(s) = info.payload().downcast_ref::<&str>() {
            s.to_string()
        } else if let Some(s) = info.payload().downcast_ref::<String>() {
            s.clone()
        } else {
            "<non-string panic>".to_string()
        };
        // panics outside `guard` are harness failures and must stay loud
        if msg.starts_with("harness:") || IN_GUARD.with(|g| g.get()) == 0 {
            default(info);
        }
        LAST_PANIC.with(|p| *p.borrow_mut() = Some(format!("{} @ {}", msg, loc)));
    }));
}

/// Run a call into the code under test; a panic becomes Err(message).
pub fn guard<T>(f: impl FnOnce() -> T) -> Result<T, String> {
    IN_GUARD.with(|g| g.set(g.get() + 1));
    let r = panic::catch_unwind(AssertUnwindSafe(f));
    IN_GUARD.with(|g| g.set(g.get().saturating_sub(1)));
    match r {
        Ok(v) => Ok(v),
        Err(_) => {
            let m = LAST_PANIC
                .with(|p| p.borrow_mut().take())
                .unwrap_or_else(|| "panic".into());
            Err(m)
        }
    }
}

pub fn panic_sig(msg: &str) -> String {
    // keep signatures space-free and stable: drop everything after the source location column
    let short: String = msg
        .chars()
        .map(|c| if c.is_whitespace() { '_' } else { c })
        .take(80)
        .collect();
    format!("PANIC({})", short)
}

// ---------------------------------------------------------------------------------------
// Known findings
// ---------------------------------------------------------------------------------------
#[derive(Clone, Debug)]
pub struct Finding {
    pub property: String,
    pub sig: String,
    pub what: String,
}

pub fn load_known_findings() -> Vec<Finding> {
    let p = verif_dir().join("KNOWN_FINDINGS.txt");
    let txt = std::fs::read_to_string(&p).unwrap_or_default();
    let mut v = Vec::new();
    for line in txt.lines() {
        let line = line.trim();
        if !line.starts_with("finding:") {
            continue; // comments and `fixed:` lines suppress nothing
        }
        let rest = line["finding:".len()..].trim();
        let mut prop = None;
        let mut sig = None;
        let mut what = Vec::new();
        for tok in rest.split_whitespace() {
            if prop.is_none() && tok.starts_with("property=") {
                prop = Some(tok["property=".len()..].to_string());
            } else if sig.is_none() && tok.starts_with("sig=") {
                sig = Some(tok["sig=".len()..].to_string());
            } else {
                what.push(tok);
            }
        }
        if let (Some(property), Some(sig)) = (prop, sig) {
            v.push(Finding { property, sig, what: what.join(" ") });
        }
    }
    v
}

// ---------------------------------------------------------------------------------------
// Run
// ---------------------------------------------------------------------------------------
pub struct Run {
    pub id: String,
    pub tier: Tier,
    pub seed: u64,
    pub level: &'static str,
    pub replay_mode: bool,
    start: Instant,
    pub evaluations: u64,
    /// distinct non-trivial cases counted through fingerprints
    nt_set: HashSet<u64>,
    /// non-trivial cases of exhaustive enumerations that visit every case exactly once
    /// (distinct by construction, so counting them is counting distinct cases)
    nt_enum: u64,
    pub rule: String,
    samples: Vec<Value>,
    sample_seen: u64,
    pub violations: BTreeMap<String, Violation>,
    pub total_violating_cases: u64,
    known: std::sync::Arc<Vec<Finding>>,
    pub tolerated_known: u64,
    pub extra: Map<String, Value>,
    pub assumptions: Vec<String>,
    pub exhaustive: bool,
    pub parts: Vec<Value>,
    pub inconclusive: Vec<String>,
    /// set when the machinery could not decide at all (exit 2 unless a violation was found)
    pub undecided: Option<String>,
}

pub const MAX_SAMPLES: usize = 14;

impl Run {
    pub fn new(id: &str, tier: Tier, seed: u64) -> Run {
        Run::new_with(id, tier, seed, std::sync::Arc::new(load_known_findings()))
    }

    pub fn new_with(id: &str, tier: Tier, seed: u64, known: std::sync::Arc<Vec<Finding>>) -> Run {
        Run {
            id: id.to_string(),
            tier,
            seed,
            level: "exploration",
            replay_mode: false,
            start: Instant::now(),
            evaluations: 0,
            nt_set: HashSet::new(),
            nt_enum: 0,
            rule: String::new(),
            samples: Vec::new(),
            sample_seen: 0,
            violations: BTreeMap::new(),
            total_violating_cases: 0,
            known,
            tolerated_known: 0,
            extra: Map::new(),
            assumptions: Vec::new(),
            exhaustive: false,
            parts: Vec::new(),
            inconclusive: Vec::new(),
            undecided: None,
        }
    }

    /// A scratch Run used inside generated-case closures: collects violations of one case,
    /// loads nothing, writes nothing.
    pub fn probe(id: &str) -> Run {
        let mut r = Run::new_with(id, Tier::Quick, 0, std::sync::Arc::new(Vec::new()));
        r.replay_mode = true;
        r
    }

    pub fn is_known(&self, sig: &str) -> bool {
        !self.replay_mode && self.known.iter().any(|f| f.property == self.id && f.sig == sig)
    }

    pub fn eval(&mut self, n: u64) {
        self.evaluations += n;
    }
    pub fn nontrivial_fp(&mut self, f: u64) {
        self.nt_set.insert(f);
    }
    pub fn nontrivial_enum(&mut self, n: u64) {
        self.nt_enum += n;
    }
    pub fn distinct_nontrivial(&self) -> u64 {
        self.nt_set.len() as u64 + self.nt_enum
    }

    /// Offer a sample; keeps the first few, then a seed-selected reservoir, so the evidence
    /// shows cases from the whole run and not only its beginning.
    pub fn sample(&mut self, make: impl FnOnce() -> Value) {
        self.sample_seen += 1;
        if self.samples.len() < MAX_SAMPLES {
            self.samples.push(make());
            return;
        }
        // deterministic reservoir over slots 4.. (first four stay)
        let h = fp(&(self.seed, self.sample_seen, 0x5a17u32));
        if h % self.sample_seen < (MAX_SAMPLES as u64 - 4) {
            let slot = 4 + (h / 7 % (MAX_SAMPLES as u64 - 4)) as usize;
            self.samples[slot] = make();
        }
    }
    /// sampling decision without building the value (cheap pre-test for hot loops)
    pub fn wants_sample(&self) -> bool {
        if self.samples.len() < MAX_SAMPLES {
            return true;
        }
        let n = self.sample_seen + 1;
        let h = fp(&(self.seed, n, 0x5a17u32));
        h % n < (MAX_SAMPLES as u64 - 4)
    }

    pub fn violation(&mut self, v: Violation) {
        self.total_violating_cases += 1;
        // A blunt defect fails millions of generated cases with as many distinct signatures:
        // keep every known-finding signature (bounded by the findings file) and the first
        // MAX_STORED others; the rest is only counted (memory stays bounded).
        const MAX_STORED: usize = 2000;
        if self.violations.contains_key(&v.sig) {
            return;
        }
        if self.violations.len() >= MAX_STORED && !self.is_known(&v.sig) {
            return;
        }
        self.violations.insert(v.sig.clone(), v);
    }

    pub fn part(&mut self, name: &str, v: Value) {
        let mut m = Map::new();
        m.insert("part".into(), json!(name));
        if let Value::Object(o) = v {
            for (k, val) in o {
                m.insert(k, val);
            }
        } else {
            m.insert("info".into(), v);
        }
        self.parts.push(Value::Object(m));
    }

    /// Writes replay files + evidence, prints the verdict lines, returns the exit code.
    pub fn finish(mut self) -> i32 {
        let ev_dir = out_dir();
        let rp_dir = ev_dir.join("replay");
        let _ = std::fs::create_dir_all(&rp_dir);

        let mut unknown: Vec<&Violation> = Vec::new();
        let mut known_seen: BTreeSet<String> = BTreeSet::new();
        for (sig, v) in &self.violations {
            if self.is_known(sig) {
                known_seen.insert(sig.clone());
            } else {
                unknown.push(v);
            }
        }
        for f in self.known.iter() {
            if f.property == self.id && known_seen.contains(&f.sig) {
                println!("KNOWN-FINDING: property={} {} [sig={}]", self.id, f.what, f.sig);
            }
        }
        // clean stale replay files of this property
        if !self.replay_mode {
            if let Ok(rd) = std::fs::read_dir(&rp_dir) {
                for e in rd.flatten() {
                    let n = e.file_name().to_string_lossy().to_string();
                    if n.starts_with(&format!("{}-", self.id)) {
                        let _ = std::fs::remove_file(e.path());
                    }
                }
            }
        }
        let mut printed = 0;
        let mut replay_paths = Vec::new();
        for v in &unknown {
            let path = rp_dir.join(format!("{}-{:016x}.json", self.id, fp(&v.sig)));
            let body = json!({
                "property": self.id,
                "sig": v.sig,
                "what": v.what,
                "case": v.case,
            });
            if !self.replay_mode {
                let _ = std::fs::write(&path, serde_json::to_string_pretty(&body).unwrap());
            }
            replay_paths.push(path.display().to_string());
            if printed < 20 {
                if self.replay_mode {
                    println!("VIOLATION property={} replay=(replayed) {}", self.id, v.what);
                } else {
                    println!("VIOLATION property={} replay={}", self.id, path.display());
                    println!("  what: {}", v.what);
                }
                printed += 1;
            }
        }
        if unknown.len() > printed {
            println!(
                "… {} more distinct violation signatures (replay files written for all)",
                unknown.len() - printed
            );
        }

        let wall = self.start.elapsed().as_secs_f64();
        if !self.replay_mode {
            let mut cov = Map::new();
            cov.insert("evaluations".into(), json!(self.evaluations));
            cov.insert("distinct_nontrivial".into(), json!(self.distinct_nontrivial()));
            cov.insert("rule".into(), json!(self.rule));
            cov.insert("samples".into(), Value::Array(std::mem::take(&mut self.samples)));
            cov.insert("exhaustive".into(), json!(self.exhaustive));
            cov.insert("parts".into(), Value::Array(std::mem::take(&mut self.parts)));
            cov.insert("tolerated_known_finding_cases".into(), json!(self.tolerated_known));
            cov.insert(
                "known_findings_observed".into(),
                json!(known_seen.iter().cloned().collect::<Vec<_>>()),
            );
            cov.insert("violating_cases_total".into(), json!(self.total_violating_cases));
            cov.insert(
                "violation_signatures".into(),
                json!(unknown.iter().map(|v| v.sig.clone()).collect::<Vec<_>>()),
            );
            cov.insert("tree_under_test".into(), json!(crate::universe::TREE_UNDER_TEST));
            if !self.inconclusive.is_empty() {
                cov.insert("inconclusive".into(), json!(self.inconclusive));
            }
            if self.level == "other" {
                cov.insert(
                    "explanation".into(),
                    self.extra
                        .get("explanation")
                        .cloned()
                        .unwrap_or_else(|| json!(self.rule.clone())),
                );
            }
            for (k, v) in std::mem::take(&mut self.extra) {
                cov.entry(k).or_insert(v);
            }
            let ev = json!({
                "property_id": self.id,
                "tier": self.tier.name(),
                "seed": self.seed,
                "level": self.level,
                "coverage": Value::Object(cov),
                "assumptions": self.assumptions,
                "wall_s": (wall * 1000.0).round() / 1000.0,
                "violations": unknown.len(),
            });
            let path = ev_dir.join(format!("{}.json", self.id));
            std::fs::write(&path, serde_json::to_string_pretty(&ev).unwrap())
                .expect("harness: cannot write evidence file");
        }
        println!(
            "{} {} tier={} seed={} evaluations={} distinct_nontrivial={} violations={} known_findings={} tolerated_known_cases={} wall={:.2}s",
            if unknown.is_empty() { "OK" } else { "FAIL" },
            self.id,
            self.tier.name(),
            self.seed,
            self.evaluations,
            self.distinct_nontrivial(),
            unknown.len(),
            known_seen.len(),
            self.tolerated_known,
            wall
        );
        if !unknown.is_empty() {
            1
        } else if let Some(u) = &self.undecided {
            println!("INCONCLUSIVE property={}: {} (exit 2, not a violation)", self.id, u);
            2
        } else {
            0
        }
    }
}
