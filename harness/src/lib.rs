//! Property-based / exhaustive-generator verification harness for pc-keyboard (see /verif/DESIGN.md).
pub mod checks;
pub mod explore;
pub mod fuzz_api;
pub mod gen;
pub mod graph;
pub mod model;
pub mod prop;
pub mod report;
pub mod universe;
