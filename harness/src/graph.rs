//! Reachable-machine extraction for the two scancode decoders (DESIGN §3.3).
//! Needs the `verif-hooks` derive(Clone, PartialEq) for state snapshots / identity.
use crate::report::guard;
use crate::universe::*;

pub trait Dec: ScancodeSet + Clone + PartialEq + std::fmt::Debug + Send + Sync {
    const NAME: &'static str;
    const IS_SET2: bool;
    fn fresh() -> Self;
}
impl Dec for ScancodeSet1 {
    const NAME: &'static str = "set1";
    const IS_SET2: bool = false;
    fn fresh() -> Self {
        ScancodeSet1::new()
    }
}
impl Dec for ScancodeSet2 {
    const NAME: &'static str = "set2";
    const IS_SET2: bool = true;
    fn fresh() -> Self {
        ScancodeSet2::new()
    }
}

pub type ScOut = Result<Option<KeyEvent>, Error>;

#[derive(Clone, Debug)]
pub enum Step {
    Ret(ScOut, usize),
    Panic(String),
}

pub struct Graph<D: Dec> {
    pub states: Vec<D>,
    pub parent: Vec<Option<(usize, u8)>>,
    pub trans: Vec<Vec<Step>>, // [state][byte]
    pub closed: bool,
}

pub const STATE_CAP: usize = 4096;

impl<D: Dec> Graph<D> {
    pub fn extract() -> Graph<D> {
        let mut g = Graph {
            states: vec![D::fresh()],
            parent: vec![None],
            trans: Vec::new(),
            closed: false,
        };
        let mut i = 0;
        while i < g.states.len() {
            let mut row = Vec::with_capacity(256);
            for b in 0..=255u8 {
                let mut s = g.states[i].clone();
                match guard(|| {
                    let o = s.advance_state(b);
                    (o, s)
                }) {
                    Ok((o, s2)) => {
                        let j = match g.states.iter().position(|x| *x == s2) {
                            Some(j) => j,
                            None => {
                                if g.states.len() >= STATE_CAP {
                                    g.trans.push(row);
                                    return g; // not closed
                                }
                                g.states.push(s2);
                                g.parent.push(Some((i, b)));
                                g.states.len() - 1
                            }
                        };
                        row.push(Step::Ret(o, j));
                    }
                    Err(m) => row.push(Step::Panic(m)),
                }
            }
            g.trans.push(row);
            i += 1;
        }
        g.closed = true;
        g
    }

    /// Shortest byte history reaching state `i` from a fresh decoder.
    pub fn history(&self, mut i: usize) -> Vec<u8> {
        let mut v = Vec::new();
        while let Some((p, b)) = self.parent[i] {
            v.push(b);
            i = p;
        }
        v.reverse();
        v
    }

    /// Mealy-machine behavioural equivalence classes (partition refinement on outputs).
    /// Panicking transitions count as a distinct output with no successor.
    pub fn equivalence_classes(&self) -> Vec<usize> {
        let n = self.states.len();
        let mut class = vec![0usize; n];
        loop {
            let mut sigs: Vec<(usize, Vec<(String, usize)>)> = Vec::with_capacity(n);
            for i in 0..n {
                let mut row = Vec::with_capacity(256);
                for b in 0..256 {
                    match &self.trans[i][b] {
                        Step::Ret(o, j) => row.push((sc_out_str(o), class[*j])),
                        Step::Panic(_) => row.push(("PANIC".to_string(), usize::MAX)),
                    }
                }
                sigs.push((class[i], row));
            }
            let mut uniq: Vec<&(usize, Vec<(String, usize)>)> = Vec::new();
            let mut newc = vec![0usize; n];
            for i in 0..n {
                let pos = uniq.iter().position(|u| **u == sigs[i]);
                newc[i] = match pos {
                    Some(p) => p,
                    None => {
                        uniq.push(&sigs[i]);
                        uniq.len() - 1
                    }
                };
            }
            if newc == class {
                return class;
            }
            class = newc;
        }
    }
}

/// Feed a byte history to a fresh decoder and return the result of the last byte (hook-free).
pub fn run_bytes<D: Dec>(bytes: &[u8]) -> Result<Vec<ScOut>, String> {
    guard(|| {
        let mut d = D::fresh();
        bytes.iter().map(|b| d.advance_state(*b)).collect()
    })
}
