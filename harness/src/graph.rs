//! Reachable-machine extraction for the two scancode decoders (DESIGN §3.3).
//! Needs the `verif-hooks` derive(Debug, Clone, PartialEq) for state snapshots / identity:
//! Clone to branch, PartialEq to decide identity, Debug only as a *hash bucket key* (two states
//! are merged only if PartialEq says so; a Debug string that hides a field merely makes buckets
//! coarser, one that shows irrelevant detail merely makes them finer).
use crate::report::guard;
use crate::universe::*;
use rayon::prelude::*;
use std::collections::HashMap;

pub trait Dec: ScancodeSet + Clone + PartialEq + std::fmt::Debug + Send + Sync {
    const NAME: &'static str;
    const IS_SET2: bool;
    fn fresh() -> Self;
}
impl Dec for ScancodeSet1 {
    const NAME: &'static str = "set1";
    const IS_SET2: bool = false;
    fn fresh() -> Self {
        ScancodeSet1::new()
    }
}
impl Dec for ScancodeSet2 {
    const NAME: &'static str = "set2";
    const IS_SET2: bool = true;
    fn fresh() -> Self {
        ScancodeSet2::new()
    }
}

pub type ScOut = Result<Option<KeyEvent>, Error>;

#[derive(Clone, Debug)]
pub enum Step {
    Ret(ScOut, usize),
    Panic(String),
}

const NO_STATE: u32 = u32::MAX;

pub struct Graph<D: Dec> {
    pub states: Vec<D>,
    pub parent: Vec<Option<(u32, u8)>>,
    /// interned distinct outputs (index 0.. ); panics are interned too
    outs: Vec<Result<ScOut, String>>,
    out_of: Vec<[u16; 256]>,
    next: Vec<[u32; 256]>,
    pub closed: bool,
    pub cap: usize,
}

/// State caps: beyond these the decoder is no longer treated as a small automaton and only
/// the black-box layers apply (reported as `inconclusive` detail, never as a violation).
pub fn state_cap(thorough: bool) -> usize {
    if thorough {
        400_000
    } else {
        40_000
    }
}

impl<D: Dec> Graph<D> {
    pub fn extract() -> Graph<D> {
        Self::extract_with_cap(state_cap(std::env::var("VERIF_TIER").map(|t| t == "thorough").unwrap_or(false) || std::env::args().any(|a| a == "thorough")))
    }

    pub fn extract_with_cap(cap: usize) -> Graph<D> {
        let mut g = Graph { states: vec![D::fresh()], parent: vec![None], outs: Vec::new(), out_of: Vec::new(), next: Vec::new(), closed: false, cap };
        let mut buckets: HashMap<String, Vec<u32>> = HashMap::new();
        buckets.insert(format!("{:?}", g.states[0]), vec![0]);
        let mut out_ids: HashMap<String, u16> = HashMap::new();
        let mut level_start = 0usize;
        loop {
            let level_end = g.states.len();
            if level_start == level_end {
                g.closed = true;
                return g;
            }
            // expand the whole BFS level in parallel: (output, successor, successor's Debug key)
            let expanded: Vec<Vec<Result<(ScOut, D, String), String>>> = g.states[level_start..level_end]
                .par_iter()
                .map(|st| {
                    (0..=255u8)
                        .map(|b| {
                            let mut s = st.clone();
                            guard(|| {
                                let o = s.advance_state(b);
                                let key = format!("{:?}", s);
                                (o, s, key)
                            })
                        })
                        .collect()
                })
                .collect();
            for (off, row) in expanded.into_iter().enumerate() {
                let i = level_start + off;
                let mut out_row = [0u16; 256];
                let mut next_row = [NO_STATE; 256];
                for (b, cell) in row.into_iter().enumerate() {
                    let (interned, succ): (Result<ScOut, String>, Option<(D, String)>) = match cell {
                        Ok((o, s2, key)) => (Ok(o), Some((s2, key))),
                        Err(p) => (Err(p), None),
                    };
                    let okey = match &interned {
                        Ok(o) => sc_out_str(o),
                        Err(p) => format!("PANIC:{}", p),
                    };
                    let oid = *out_ids.entry(okey).or_insert_with(|| {
                        g.outs.push(interned.clone());
                        (g.outs.len() - 1) as u16
                    });
                    out_row[b] = oid;
                    if let Some((s2, key)) = succ {
                        let bucket = buckets.entry(key).or_default();
                        let found = bucket.iter().copied().find(|j| g.states[*j as usize] == s2);
                        let j = match found {
                            Some(j) => j,
                            None => {
                                if g.states.len() >= cap {
                                    // not closed: keep what we have; unexplored successors point nowhere
                                    NO_STATE
                                } else {
                                    g.states.push(s2);
                                    g.parent.push(Some((i as u32, b as u8)));
                                    let j = (g.states.len() - 1) as u32;
                                    bucket.push(j);
                                    j
                                }
                            }
                        };
                        next_row[b] = j;
                    }
                }
                g.out_of.push(out_row);
                g.next.push(next_row);
            }
            level_start = level_end;
            if g.states.len() >= cap {
                // finish rows for the states discovered so far? No: stop here, graph is partial.
                g.closed = false;
                return g;
            }
        }
    }

    /// number of states whose outgoing transitions have been computed
    pub fn expanded(&self) -> usize {
        self.out_of.len()
    }

    pub fn step(&self, s: usize, b: u8) -> Step {
        match &self.outs[self.out_of[s][b as usize] as usize] {
            Ok(o) => Step::Ret(o.clone(), self.next[s][b as usize] as usize),
            Err(p) => Step::Panic(p.clone()),
        }
    }
    pub fn out_id(&self, s: usize, b: u8) -> u16 {
        self.out_of[s][b as usize]
    }
    pub fn next_of(&self, s: usize, b: u8) -> Option<usize> {
        let n = self.next[s][b as usize];
        if n == NO_STATE || (n as usize) >= self.expanded() && !self.closed {
            if n == NO_STATE { None } else { Some(n as usize) }
        } else {
            Some(n as usize)
        }
    }
    pub fn out_is_none(&self, s: usize, b: u8) -> bool {
        matches!(&self.outs[self.out_of[s][b as usize] as usize], Ok(Ok(None)))
    }

    /// Shortest byte history reaching state `i` from a fresh decoder.
    pub fn history(&self, mut i: usize) -> Vec<u8> {
        let mut v = Vec::new();
        while let Some((p, b)) = self.parent[i] {
            v.push(b);
            i = p as usize;
        }
        v.reverse();
        v
    }

    /// Mealy-machine behavioural equivalence classes (partition refinement on outputs).
    /// Only meaningful on a closed graph.
    pub fn equivalence_classes(&self) -> Vec<u32> {
        let n = self.expanded();
        let mut class = vec![0u32; n];
        loop {
            let mut ids: HashMap<Vec<(u16, u32)>, u32> = HashMap::new();
            let mut newc = vec![0u32; n];
            for i in 0..n {
                let mut sig: Vec<(u16, u32)> = Vec::with_capacity(257);
                sig.push((0, class[i]));
                for b in 0..256 {
                    let nx = self.next[i][b];
                    let c = if nx == NO_STATE || nx as usize >= n { u32::MAX } else { class[nx as usize] };
                    sig.push((self.out_of[i][b], c));
                }
                let next_id = ids.len() as u32;
                newc[i] = *ids.entry(sig).or_insert(next_id);
            }
            if newc == class {
                return class;
            }
            class = newc;
        }
    }

    /// Longest path of Ok(None) transitions (None = a cycle of such transitions exists).
    pub fn longest_none_path(&self) -> (Option<usize>, usize) {
        let n = self.expanded();
        // iterative DFS with colours
        let mut best = vec![0usize; n];
        let mut colour = vec![0u8; n];
        let mut worst_state = 0usize;
        let mut cyclic = false;
        for root in 0..n {
            if colour[root] != 0 {
                continue;
            }
            let mut stack: Vec<(usize, usize)> = vec![(root, 0)];
            colour[root] = 1;
            while let Some((s, b)) = stack.last().copied() {
                if b == 256 {
                    colour[s] = 2;
                    stack.pop();
                    if let Some((p, _)) = stack.last().copied() {
                        if best[p] < best[s] + 1 {
                            best[p] = best[s] + 1;
                        }
                    }
                    continue;
                }
                stack.last_mut().unwrap().1 += 1;
                if self.out_is_none(s, b as u8) {
                    let nx = self.next[s][b];
                    if nx == NO_STATE || nx as usize >= n {
                        if best[s] < 1 {
                            best[s] = 1;
                        }
                        continue;
                    }
                    let nx = nx as usize;
                    match colour[nx] {
                        0 => {
                            colour[nx] = 1;
                            stack.push((nx, 0));
                        }
                        1 => cyclic = true,
                        _ => {
                            if best[s] < best[nx] + 1 {
                                best[s] = best[nx] + 1;
                            }
                        }
                    }
                }
            }
        }
        let mut longest = 0;
        for i in 0..n {
            if best[i] > longest {
                longest = best[i];
                worst_state = i;
            }
        }
        (if cyclic { None } else { Some(longest) }, worst_state)
    }
}

/// Feed a byte history to a fresh decoder and return every result (hook-free).
pub fn run_bytes<D: Dec>(bytes: &[u8]) -> Result<Vec<ScOut>, String> {
    guard(|| {
        let mut d = D::fresh();
        bytes.iter().map(|b| d.advance_state(*b)).collect()
    })
}
