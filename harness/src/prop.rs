//! Thin wrapper around proptest's TestRunner for use from a binary: explicit seed, no failure
//! persistence, shrinking on, first failure returned as the *shrunk* value.
use proptest::strategy::Strategy;
use proptest::test_runner::{Config, RngSeed, TestCaseError, TestError, TestRunner};
use std::cell::Cell;
use std::fmt::Debug;

pub struct Outcome<T> {
    pub failure: Option<(T, String)>,
}

/// `test(value, counting)`: `counting` is false once the first failure has been seen (the
/// closure is re-run during shrinking; statistics must stop there).
pub fn run_prop<T, S>(
    seed: u64,
    salt: u64,
    cases: u32,
    strat: S,
    test: impl Fn(&T, bool) -> Result<(), String>,
) -> Outcome<T>
where
    S: Strategy<Value = T>,
    T: Debug + Clone,
{
    let cfg = Config {
        cases,
        failure_persistence: None,
        rng_seed: RngSeed::Fixed(seed.wrapping_mul(0x9E37_79B9_7F4A_7C15) ^ salt),
        max_shrink_iters: 50_000,
        max_local_rejects: 1_000_000,
        max_global_rejects: 1_000_000,
        ..Config::default()
    };
    let mut runner = TestRunner::new(cfg);
    let failed = Cell::new(false);
    let res = runner.run(&strat, |v| {
        let counting = !failed.get();
        match test(&v, counting) {
            Ok(()) => Ok(()),
            Err(m) => {
                failed.set(true);
                Err(TestCaseError::fail(m))
            }
        }
    });
    match res {
        Ok(()) => Outcome { failure: None },
        Err(TestError::Fail(reason, v)) => Outcome { failure: Some((v, reason.message().to_string())) },
        Err(TestError::Abort(r)) => panic!("harness: proptest aborted: {}", r.message()),
    }
}

/// Map a generated u16 monotonically onto 0..len (so shrinking towards 0 shrinks the index).
pub fn idx(i: u16, len: usize) -> usize {
    if len == 0 {
        return 0;
    }
    ((i as usize) * len) >> 16
}
