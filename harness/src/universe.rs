//! Universes the checks quantify over: keys, modifier records, modes, layout objects.
//! Nothing here is an oracle; it only names and constructs inputs.

pub use pc_keyboard::layouts::{
    AnyLayout, Azerty, Colemak, DVP104Key, De105Key, Dvorak104Key, FiSe105Key, Jis109Key,
    No105Key, Uk105Key, Us104Key,
};
pub use pc_keyboard::{
    DecodedKey, Error, EventDecoder, HandleControl, KeyCode, KeyEvent, KeyState, Keyboard,
    KeyboardLayout, Modifiers, Ps2Decoder, ScancodeSet, ScancodeSet1, ScancodeSet2,
};

include!(concat!(env!("OUT_DIR"), "/all_keys.rs"));

pub fn nkeys() -> usize {
    ALL_KEYS.len()
}

/// Index of a key in ALL_KEYS.
pub fn key_idx(k: KeyCode) -> usize {
    // KeyCode is a field-less enum: `as u8` is its (unique) discriminant. ALL_KEYS is in
    // declaration order, so normally idx == discriminant; fall back to a search otherwise.
    let d = k as u8 as usize;
    if d < ALL_KEYS.len() && ALL_KEYS[d] == k {
        return d;
    }
    match ALL_KEYS.iter().position(|x| *x == k) {
        Some(i) => i,
        None => {
            // The crate produced a key the generated universe does not list (a cfg-gated or
            // macro-generated variant build.rs could not see). That is a gap of the harness,
            // never a property violation: stop undecided.
            eprintln!("INCONCLUSIVE: KeyCode::{:?} is not in the generated key universe (parsed from {}; skipped variants: {:?})", k, KEYS_SOURCE, KEYS_SKIPPED);
            std::process::exit(2)
        }
    }
}

pub fn key_name(k: KeyCode) -> String {
    format!("{:?}", k)
}

pub fn key_by_name(n: &str) -> Option<KeyCode> {
    ALL_KEYS.iter().copied().find(|k| key_name(*k) == n)
}

// ---------------------------------------------------------------------------------------
// Modifiers: 9 public bool fields <-> 9 bits
// ---------------------------------------------------------------------------------------
pub const M_LSHIFT: u16 = 1 << 0;
pub const M_RSHIFT: u16 = 1 << 1;
pub const M_LCTRL: u16 = 1 << 2;
pub const M_RCTRL: u16 = 1 << 3;
pub const M_NUMLOCK: u16 = 1 << 4;
pub const M_CAPSLOCK: u16 = 1 << 5;
pub const M_LALT: u16 = 1 << 6;
pub const M_RALT: u16 = 1 << 7;
pub const M_RCTRL2: u16 = 1 << 8;
pub const N_MODS: u16 = 512;
pub const MOD_NAMES: [&str; 9] = [
    "lshift", "rshift", "lctrl", "rctrl", "numlock", "capslock", "lalt", "ralt", "rctrl2",
];

pub fn mods(bits: u16) -> Modifiers {
    Modifiers {
        lshift: bits & M_LSHIFT != 0,
        rshift: bits & M_RSHIFT != 0,
        lctrl: bits & M_LCTRL != 0,
        rctrl: bits & M_RCTRL != 0,
        numlock: bits & M_NUMLOCK != 0,
        capslock: bits & M_CAPSLOCK != 0,
        lalt: bits & M_LALT != 0,
        ralt: bits & M_RALT != 0,
        rctrl2: bits & M_RCTRL2 != 0,
    }
}

pub fn mod_bits(m: &Modifiers) -> u16 {
    (m.lshift as u16)
        | (m.rshift as u16) << 1
        | (m.lctrl as u16) << 2
        | (m.rctrl as u16) << 3
        | (m.numlock as u16) << 4
        | (m.capslock as u16) << 5
        | (m.lalt as u16) << 6
        | (m.ralt as u16) << 7
        | (m.rctrl2 as u16) << 8
}

pub fn mods_str(bits: u16) -> String {
    let mut v = Vec::new();
    for (i, n) in MOD_NAMES.iter().enumerate() {
        if bits & (1 << i) != 0 {
            v.push(*n);
        }
    }
    if v.is_empty() {
        "-".to_string()
    } else {
        v.join("+")
    }
}

/// The five abstract facts of C11, computed by the harness (never by the crate's predicates).
#[derive(Clone, Copy, Debug, PartialEq, Eq, Hash)]
pub struct Facts {
    pub shift: bool,
    pub ctrl: bool,
    pub altgr: bool,
    pub caps: bool,
    pub num: bool,
}

pub fn facts(bits: u16) -> Facts {
    let shift = bits & (M_LSHIFT | M_RSHIFT) != 0;
    let ctrl = bits & (M_LCTRL | M_RCTRL) != 0;
    let altgr = (bits & M_RALT != 0) || ((bits & M_LALT != 0) && ctrl);
    Facts {
        shift,
        ctrl,
        altgr,
        caps: bits & M_CAPSLOCK != 0,
        num: bits & M_NUMLOCK != 0,
    }
}

impl Facts {
    pub fn class_id(&self) -> u8 {
        (self.shift as u8)
            | (self.ctrl as u8) << 1
            | (self.altgr as u8) << 2
            | (self.caps as u8) << 3
            | (self.num as u8) << 4
    }
}

// ---------------------------------------------------------------------------------------
// Modes
// ---------------------------------------------------------------------------------------
pub const MODES: [HandleControl; 2] = [HandleControl::MapLettersToUnicode, HandleControl::Ignore];
pub fn mode_name(h: HandleControl) -> &'static str {
    match h {
        HandleControl::MapLettersToUnicode => "Map",
        HandleControl::Ignore => "Ignore",
        // a mode added later (or `#[non_exhaustive]`): not in MODES, never generated
        #[allow(unreachable_patterns)]
        _ => "OtherMode",
    }
}
pub fn mode_by_name(s: &str) -> Option<HandleControl> {
    match s {
        "Map" => Some(HandleControl::MapLettersToUnicode),
        "Ignore" => Some(HandleControl::Ignore),
        _ => None,
    }
}
pub fn mode_idx(h: HandleControl) -> usize {
    match h {
        HandleControl::MapLettersToUnicode => 0,
        HandleControl::Ignore => 1,
        #[allow(unreachable_patterns)]
        _ => 1,
    }
}

// ---------------------------------------------------------------------------------------
// Layout objects: 10 shipped layouts x {bare, AnyLayout by value, &AnyLayout}
// ---------------------------------------------------------------------------------------
pub const N_LAYOUTS: usize = 10;
pub const LAYOUT_NAMES: [&str; N_LAYOUTS] = [
    "Us104Key",
    "Uk105Key",
    "De105Key",
    "Azerty",
    "No105Key",
    "FiSe105Key",
    "Jis109Key",
    "Colemak",
    "Dvorak104Key",
    "DVP104Key",
];
pub const L_US: usize = 0;
pub const L_UK: usize = 1;
pub const L_DE: usize = 2;
pub const L_FR: usize = 3;
pub const L_NO: usize = 4;
pub const L_FISE: usize = 5;
pub const L_JIS: usize = 6;
pub const L_COLEMAK: usize = 7;
pub const L_DVORAK: usize = 8;
pub const L_DVP: usize = 9;

pub fn layout_by_name(s: &str) -> Option<usize> {
    LAYOUT_NAMES.iter().position(|n| *n == s)
}

#[derive(Clone, Copy, Debug, PartialEq, Eq, Hash)]
pub enum Form {
    Bare,
    AnyVal,
    AnyRef,
}
pub const FORMS: [Form; 3] = [Form::Bare, Form::AnyVal, Form::AnyRef];
pub fn form_name(f: Form) -> &'static str {
    match f {
        Form::Bare => "bare",
        Form::AnyVal => "AnyLayout",
        Form::AnyRef => "&AnyLayout",
    }
}
pub fn form_by_name(s: &str) -> Option<Form> {
    FORMS.iter().copied().find(|f| form_name(*f) == s)
}

pub fn any_layout(l: usize) -> AnyLayout {
    match l {
        L_US => AnyLayout::Us104Key(Us104Key),
        L_UK => AnyLayout::Uk105Key(Uk105Key),
        L_DE => AnyLayout::De105Key(De105Key),
        L_FR => AnyLayout::Azerty(Azerty),
        L_NO => AnyLayout::No105Key(No105Key),
        L_FISE => AnyLayout::FiSe105Key(FiSe105Key),
        L_JIS => AnyLayout::Jis109Key(Jis109Key),
        L_COLEMAK => AnyLayout::Colemak(Colemak),
        L_DVORAK => AnyLayout::Dvorak104Key(Dvorak104Key),
        L_DVP => AnyLayout::DVP104Key(DVP104Key),
        _ => panic!("harness: bad layout id {}", l),
    }
}

pub fn call_bare(l: usize, k: KeyCode, m: &Modifiers, h: HandleControl) -> DecodedKey {
    match l {
        L_US => Us104Key.map_keycode(k, m, h),
        L_UK => Uk105Key.map_keycode(k, m, h),
        L_DE => De105Key.map_keycode(k, m, h),
        L_FR => Azerty.map_keycode(k, m, h),
        L_NO => No105Key.map_keycode(k, m, h),
        L_FISE => FiSe105Key.map_keycode(k, m, h),
        L_JIS => Jis109Key.map_keycode(k, m, h),
        L_COLEMAK => Colemak.map_keycode(k, m, h),
        L_DVORAK => Dvorak104Key.map_keycode(k, m, h),
        L_DVP => DVP104Key.map_keycode(k, m, h),
        _ => panic!("harness: bad layout id {}", l),
    }
}

pub fn call(l: usize, f: Form, k: KeyCode, m: &Modifiers, h: HandleControl) -> DecodedKey {
    match f {
        Form::Bare => call_bare(l, k, m, h),
        Form::AnyVal => any_layout(l).map_keycode(k, m, h),
        Form::AnyRef => {
            let a = any_layout(l);
            let r: &AnyLayout = &a;
            // `impl KeyboardLayout for &AnyLayout`: call through the reference type explicitly.
            <&AnyLayout as KeyboardLayout>::map_keycode(&r, k, m, h)
        }
    }
}

// ---------------------------------------------------------------------------------------
// Text renderings used in reports and signatures
// ---------------------------------------------------------------------------------------
pub fn dk_str(d: &DecodedKey) -> String {
    match d {
        DecodedKey::RawKey(k) => format!("Raw({:?})", k),
        DecodedKey::Unicode(c) => format!("U+{:04X}", *c as u32),
        #[allow(unreachable_patterns)]
        other => format!("{:?}", other),
    }
}
pub fn odk_str(d: &Option<DecodedKey>) -> String {
    match d {
        None => "None".into(),
        Some(d) => format!("Some({})", dk_str(d)),
    }
}
pub fn state_name(s: KeyState) -> &'static str {
    match s {
        KeyState::Up => "Up",
        KeyState::Down => "Down",
        KeyState::SingleShot => "SingleShot",
        #[allow(unreachable_patterns)]
        _ => "OtherState",
    }
}
pub fn state_arrow(s: KeyState) -> &'static str {
    match s {
        KeyState::Down => "↓",
        KeyState::Up => "↑",
        KeyState::SingleShot => "·",
        #[allow(unreachable_patterns)]
        _ => "?",
    }
}
pub fn state_by_name(s: &str) -> Option<KeyState> {
    match s {
        "Up" => Some(KeyState::Up),
        "Down" => Some(KeyState::Down),
        "SingleShot" => Some(KeyState::SingleShot),
        _ => None,
    }
}
pub const KEY_STATES: [KeyState; 3] = [KeyState::Down, KeyState::Up, KeyState::SingleShot];

pub fn sc_out_str(r: &Result<Option<KeyEvent>, Error>) -> String {
    match r {
        Ok(None) => "None".into(),
        Ok(Some(e)) => format!("{}({:?})", state_name(e.state), e.code),
        Err(e) => format!("Err({:?})", e),
    }
}

pub fn hex(bytes: &[u8]) -> String {
    bytes.iter().map(|b| format!("{:02X}", b)).collect::<Vec<_>>().join(" ")
}
