//! PS/2 frame model (C05, C06, C18). 11 bits: start(0) d0..d7 parity stop(1), LSB first.
use pc_keyboard::Error;

pub const FRAME_BITS: usize = 11;

/// Whole-word model on the low 11 bits.
pub fn check_word(w: u16) -> Result<u8, Error> {
    let start = w & 1;
    let data = ((w >> 1) & 0xFF) as u8;
    let parity = (w >> 9) & 1;
    let stop = (w >> 10) & 1;
    if start != 0 {
        return Err(Error::BadStartBit);
    }
    if stop != 1 {
        return Err(Error::BadStopBit);
    }
    let ones = data.count_ones() + parity as u32;
    if ones % 2 != 1 {
        return Err(Error::ParityError);
    }
    Ok(data)
}

/// Encoder: the unique valid frame of a byte.
pub fn encode(b: u8) -> u16 {
    let parity = if b.count_ones() % 2 == 0 { 1u16 } else { 0u16 };
    ((b as u16) << 1) | (parity << 9) | (1 << 10)
}

pub fn word_bits(w: u16) -> [bool; FRAME_BITS] {
    let mut a = [false; FRAME_BITS];
    for (i, x) in a.iter_mut().enumerate() {
        *x = (w >> i) & 1 != 0;
    }
    a
}

pub fn bits_word(bits: &[bool]) -> u16 {
    let mut w = 0u16;
    for (i, b) in bits.iter().enumerate() {
        if *b {
            w |= 1 << i;
        }
    }
    w
}

/// What the crate's own whole-word decoder says about an 11-bit word, on a fresh decoder
/// (C06 is relational: "then exactly what whole-word decoding of those 11 bits returns", so
/// its oracle is `add_word` itself; whether `add_word` is right is C05's question). Cached
/// for the 2048 words; a word on which `add_word` panics falls back to the model (C08 reports
/// the panic).
pub fn real_verdict(w: u16) -> Result<u8, Error> {
    use std::sync::OnceLock;
    static T: OnceLock<Vec<Result<u8, Error>>> = OnceLock::new();
    T.get_or_init(|| {
        (0..0x800u16)
            .map(|w| crate::report::guard(|| pc_keyboard::Ps2Decoder::new().add_word(w)).unwrap_or_else(|_| check_word(w)))
            .collect()
    })[(w & 0x7FF) as usize]
        .clone()
}

/// Bit-serial model: the bits since the last completed frame or clear().
#[derive(Clone, Debug, Default, PartialEq, Eq)]
pub struct BitModel {
    pub pending: Vec<bool>,
    /// verdict on a completed frame: the crate's `add_word` (C06) or the frame model
    pub relational: bool,
}

impl BitModel {
    pub fn new() -> Self {
        BitModel { pending: Vec::new(), relational: false }
    }
    pub fn relational() -> Self {
        BitModel { pending: Vec::new(), relational: true }
    }
    pub fn clear(&mut self) {
        self.pending.clear();
    }
    pub fn add_bit(&mut self, bit: bool) -> Result<Option<u8>, Error> {
        self.pending.push(bit);
        if self.pending.len() == FRAME_BITS {
            let w = bits_word(&self.pending);
            self.pending.clear();
            if self.relational { real_verdict(w).map(Some) } else { check_word(w).map(Some) }
        } else {
            Ok(None)
        }
    }
}

pub fn err_class(w: u16) -> &'static str {
    match check_word(w & 0x7FF) {
        Ok(_) => "valid",
        Err(Error::BadStartBit) => "bad_start",
        Err(Error::BadStopBit) => "bad_stop",
        Err(Error::ParityError) => "parity",
        Err(_) => "other",
    }
}
