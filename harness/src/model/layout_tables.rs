//! National-layout oracle for C03: for each shipped layout, what the standard prints on each
//! main-block character key at the base, Shift and AltGr level.
//!
//! Sources (transcribed; the sandbox is sealed, so this is the author's transcription of the
//! references the crate itself cites): the Windows KBDUS / KBDUK / KBDGR / KBDFR / KBDNO /
//! KBDFI+KBDSW / KBD106 tables as shown on kbdlayout.info, the Wikipedia keyboard pictures
//! linked from the README, colemak.com, the Dvorak ANSI standard and Kaufmann's Programmer
//! Dvorak. Dead keys are expected as their spacing character (the crate documents that it has
//! no dead-key support). Cells where the references disagree are unconstrained (DESIGN §6.3).
use crate::universe::*;
use pc_keyboard::KeyCode;
use KeyCode::*;

#[derive(Clone, Debug, PartialEq, Eq)]
pub enum Want {
    /// the references disagree or the key does not exist on this keyboard: nothing is required
    Any,
    /// any one of these characters is the standard's (more than one only where two editions
    /// of the standard differ, e.g. JIS backslash / yen)
    OneOf(Vec<char>),
}
impl Want {
    pub fn accepts(&self, c: char) -> bool {
        match self {
            Want::Any => true,
            Want::OneOf(v) => v.contains(&c),
        }
    }
    pub fn text(&self) -> String {
        match self {
            Want::Any => "any".into(),
            Want::OneOf(v) => v
                .iter()
                .map(|c| format!("U+{:04X}", *c as u32))
                .collect::<Vec<_>>()
                .join("|"),
        }
    }
    pub fn first(&self) -> Option<char> {
        match self {
            Want::Any => None,
            Want::OneOf(v) => v.first().copied(),
        }
    }
}

#[derive(Clone, Debug, PartialEq, Eq)]
pub enum AltGrWant {
    /// nothing required at the AltGr level of this key
    Any,
    /// the standard prints no AltGr character on this key: the layout must not invent one
    /// (output must equal the key's base-level output)
    NoLevel,
    /// the standard's AltGr character; required only if the layout gives the key a distinct
    /// AltGr-level character at all (a missing AltGr level is C12's business, not C03's)
    Char(char),
}

#[derive(Clone, Debug)]
pub struct Cell {
    pub key: KeyCode,
    pub base: Want,
    pub shift: Want,
    pub altgr: AltGrWant,
}

const NUM: [KeyCode; 13] = [
    Oem8, Key1, Key2, Key3, Key4, Key5, Key6, Key7, Key8, Key9, Key0, OemMinus, OemPlus,
];
const RQ: [KeyCode; 12] = [Q, W, E, R, T, Y, U, I, O, P, Oem4, Oem6];
const RA: [KeyCode; 12] = [A, S, D, F, G, H, J, K, L, Oem1, Oem3, Oem7];
const RZ: [KeyCode; 11] = [Oem5, Z, X, C, V, B, N, M, OemComma, OemPeriod, Oem2];

/// '\0' in a row string = unconstrained cell
fn rows(spec: [(&str, &str); 4], altgr_default: AltGrWant) -> Vec<Cell> {
    let keysets: [&[KeyCode]; 4] = [&NUM, &RQ, &RA, &RZ];
    let mut out = Vec::new();
    for (keys, (b, s)) in keysets.iter().zip(spec.iter()) {
        let bc: Vec<char> = b.chars().collect();
        let sc: Vec<char> = s.chars().collect();
        assert_eq!(bc.len(), keys.len(), "oracle row {:?} has wrong length", b);
        assert_eq!(sc.len(), keys.len(), "oracle row {:?} has wrong length", s);
        for i in 0..keys.len() {
            if bc[i] == '\0' && sc[i] == '\0' {
                continue; // key absent / wholly unconstrained on this layout
            }
            let w = |c: char| if c == '\0' { Want::Any } else { Want::OneOf(vec![c]) };
            out.push(Cell {
                key: keys[i],
                base: w(bc[i]),
                shift: w(sc[i]),
                altgr: altgr_default.clone(),
            });
        }
    }
    out
}

fn set_altgr(cells: &mut [Cell], list: &[(KeyCode, char)]) {
    for (k, c) in list {
        let cell = cells
            .iter_mut()
            .find(|x| x.key == *k)
            .unwrap_or_else(|| panic!("altgr oracle names a key without a row: {:?}", k));
        cell.altgr = AltGrWant::Char(*c);
    }
}
fn set_altgr_any(cells: &mut [Cell], keys: &[KeyCode]) {
    for k in keys {
        if let Some(cell) = cells.iter_mut().find(|x| x.key == *k) {
            cell.altgr = AltGrWant::Any;
        }
    }
}

/// The national ISO layouts (UK, DE, FR, NO, FI/SE) exist in several editions whose AltGr
/// layers differ (Windows KBDxx vs xkb vs DIN 2137 / SFS 5966 / NF Z71-300): a key on which the
/// Windows edition prints no AltGr character may carry one in another edition (FI/SE AltGr+ö = ø
/// in SFS 5966 and xkb). Only the AltGr characters all editions agree on are required; a key
/// without one is unconstrained there. US, Dvorak and JIS have no AltGr layer in any edition.
pub fn table(l: usize) -> Vec<Cell> {
    let mut t = table_windows(l);
    if matches!(l, L_UK | L_DE | L_FR | L_NO | L_FISE) {
        for c in t.iter_mut() {
            if c.altgr == AltGrWant::NoLevel {
                c.altgr = AltGrWant::Any;
            }
        }
    }
    t
}

fn table_windows(l: usize) -> Vec<Cell> {
    match l {
        L_US => rows(
            [
                ("`1234567890-=", "~!@#$%^&*()_+"),
                ("qwertyuiop[]", "QWERTYUIOP{}"),
                ("asdfghjkl;'\\", "ASDFGHJKL:\"|"),
                ("\0zxcvbnm,./", "\0ZXCVBNM<>?"),
            ],
            AltGrWant::NoLevel,
        ),
        L_UK => {
            let mut t = rows(
                [
                    ("`1234567890-=", "¬!\"£$%^&*()_+"),
                    ("qwertyuiop[]", "QWERTYUIOP{}"),
                    ("asdfghjkl;'#", "ASDFGHJKL:@~"),
                    ("\\zxcvbnm,./", "|ZXCVBNM<>?"),
                ],
                AltGrWant::NoLevel,
            );
            // KBDUK: AltGr 4 = euro, AltGr + vowels = acute vowels; Oem8 AltGr is broken bar on
            // Windows and bar on X11 -> unconstrained.
            set_altgr(
                &mut t,
                &[(Key4, '€'), (E, 'é'), (U, 'ú'), (I, 'í'), (O, 'ó'), (A, 'á')],
            );
            set_altgr_any(&mut t, &[Oem8]);
            t
        }
        L_DE => {
            let mut t = rows(
                [
                    ("^1234567890ß´", "°!\"§$%&/()=?`"),
                    ("qwertzuiopü+", "QWERTZUIOPÜ*"),
                    ("asdfghjklöä#", "ASDFGHJKLÖÄ'"),
                    ("<yxcvbnm,.-", ">YXCVBNM;:_"),
                ],
                AltGrWant::NoLevel,
            );
            set_altgr(
                &mut t,
                &[
                    (Key2, '²'),
                    (Key3, '³'),
                    (Key7, '{'),
                    (Key8, '['),
                    (Key9, ']'),
                    (Key0, '}'),
                    (OemMinus, '\\'),
                    (Q, '@'),
                    (E, '€'),
                    (Oem6, '~'),
                    (Oem5, '|'),
                    (M, 'µ'),
                ],
            );
            t
        }
        L_FR => {
            let mut t = rows(
                [
                    ("²&é\"'(-è_çà)=", "\u{0}1234567890°+"),
                    ("azertyuiop^$", "AZERTYUIOP¨£"),
                    ("qsdfghjklmù*", "QSDFGHJKLM%µ"),
                    ("<wxcvbn,;:!", ">WXCVBN?./§"),
                ],
                AltGrWant::NoLevel,
            );
            set_altgr(
                &mut t,
                &[
                    (Key2, '~'),
                    (Key3, '#'),
                    (Key4, '{'),
                    (Key5, '['),
                    (Key6, '|'),
                    (Key7, '`'),
                    (Key8, '\\'),
                    (Key9, '^'),
                    (Key0, '@'),
                    (OemMinus, ']'),
                    (OemPlus, '}'),
                    (E, '€'),
                    (Oem6, '¤'),
                ],
            );
            // Oem8 Shift: Windows prints nothing, X11 has a superscript; Oem4 AltGr: only the
            // 2019 AFNOR layout prints a caron there.
            set_altgr_any(&mut t, &[Oem4, Oem8]);
            t
        }
        L_NO => {
            let mut t = rows(
                [
                    ("|1234567890+\\", "§!\"#¤%&/()=?`"),
                    ("qwertyuiopå¨", "QWERTYUIOPÅ^"),
                    ("asdfghjkløæ'", "ASDFGHJKLØÆ*"),
                    ("<zxcvbnm,.-", ">ZXCVBNM;:_"),
                ],
                AltGrWant::NoLevel,
            );
            set_altgr(
                &mut t,
                &[
                    (Key2, '@'),
                    (Key3, '£'),
                    (Key4, '$'),
                    (Key5, '€'),
                    (Key7, '{'),
                    (Key8, '['),
                    (Key9, ']'),
                    (Key0, '}'),
                    (OemPlus, '´'),
                    (E, '€'),
                    (Oem6, '~'),
                    (M, 'µ'),
                ],
            );
            t
        }
        L_FISE => {
            let mut t = rows(
                [
                    ("§1234567890+´", "½!\"#¤%&/()=?`"),
                    ("qwertyuiopå¨", "QWERTYUIOPÅ^"),
                    ("asdfghjklöä'", "ASDFGHJKLÖÄ*"),
                    ("<zxcvbnm,.-", ">ZXCVBNM;:_"),
                ],
                AltGrWant::NoLevel,
            );
            set_altgr(
                &mut t,
                &[
                    (Key2, '@'),
                    (Key3, '£'),
                    (Key4, '$'),
                    (Key5, '€'),
                    (Key7, '{'),
                    (Key8, '['),
                    (Key9, ']'),
                    (Key0, '}'),
                    (OemMinus, '\\'),
                    (E, '€'),
                    (Oem6, '~'),
                    (Oem5, '|'),
                    (M, 'µ'),
                ],
            );
            t
        }
        L_JIS => {
            // OADG 109A. Oem8 is the hankaku/zenkaku key (no character). Key0 Shift: nothing on
            // 109A, tilde on older JIS -> unconstrained; OemPlus (the ^ key) Shift: tilde vs
            // overline -> unconstrained.
            let mut t = rows(
                [
                    ("\u{0}1234567890-^", "\u{0}!\"#$%&'()\u{0}=\u{0}"),
                    ("qwertyuiop@[", "QWERTYUIOP`{"),
                    ("asdfghjkl;:]", "ASDFGHJKL+*}"),
                    ("\u{0}zxcvbnm,./", "\u{0}ZXCVBNM<>?"),
                ],
                AltGrWant::NoLevel,
            );
            // the two extra symbol keys: backslash/underscore (ro) and yen/bar; JIS X 0201 puts
            // the yen sign at the backslash code point, so either glyph is accepted at base level
            t.push(Cell {
                key: Oem12,
                base: Want::OneOf(vec!['\\', '¥']),
                shift: Want::OneOf(vec!['_']),
                altgr: AltGrWant::NoLevel,
            });
            t.push(Cell {
                key: Oem13,
                base: Want::OneOf(vec!['¥', '\\']),
                shift: Want::OneOf(vec!['|']),
                altgr: AltGrWant::NoLevel,
            });
            t
        }
        L_COLEMAK => {
            // colemak.com defines a rich AltGr layer that is not transcribed here: AltGr level
            // unconstrained for this layout.
            rows(
                [
                    ("`1234567890-=", "~!@#$%^&*()_+"),
                    ("qwfpgjluy;[]", "QWFPGJLUY:{}"),
                    ("arstdhneio'\\", "ARSTDHNEIO\"|"),
                    ("\0zxcvbkm,./", "\0ZXCVBKM<>?"),
                ],
                AltGrWant::Any,
            )
        }
        L_DVORAK => rows(
            [
                ("`1234567890[]", "~!@#$%^&*(){}"),
                ("',.pyfgcrl/=", "\"<>PYFGCRL?+"),
                ("aoeuidhtns-\\", "AOEUIDHTNS_|"),
                ("\0;qjkxbmwvz", "\0:QJKXBMWVZ"),
            ],
            AltGrWant::NoLevel,
        ),
        L_DVP => rows(
            [
                ("$&[{}(=*)+]!#", "~%7531902468`"),
                (";,.pyfgcrl/@", ":<>PYFGCRL?^"),
                ("aoeuidhtns-\\", "AOEUIDHTNS_|"),
                ("\0'qjkxbmwvz", "\0\"QJKXBMWVZ"),
            ],
            // Kaufmann's layout (xkb us(dvp), the Windows installer) also defines an AltGr layer that is
            // not transcribed here: AltGr level unconstrained, as for Colemak.
            AltGrWant::Any,
        ),
        _ => panic!("harness: bad layout id"),
    }
}

/// What the US layout prints (used only for the non-triviality rule of C03).
pub fn us_char(k: KeyCode, shift: bool) -> Option<char> {
    let t = table(L_US);
    let c = t.iter().find(|c| c.key == k)?;
    if shift {
        c.shift.first()
    } else {
        c.base.first()
    }
}
