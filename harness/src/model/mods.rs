//! Modifier model (C04, C14, C18): nine booleans, written from the property statement.
use crate::universe::*;

pub const INITIAL_MODS: u16 = M_NUMLOCK;

/// The nine keys that the event decoder answers itself (never through the layout).
pub fn is_modifier_key(k: KeyCode) -> bool {
    matches!(
        k,
        KeyCode::LShift
            | KeyCode::RShift
            | KeyCode::LControl
            | KeyCode::RControl
            | KeyCode::LAlt
            | KeyCode::RAltGr
            | KeyCode::RControl2
            | KeyCode::CapsLock
            | KeyCode::NumpadLock
    )
}

fn momentary_flag(k: KeyCode) -> Option<u16> {
    Some(match k {
        KeyCode::LShift => M_LSHIFT,
        KeyCode::RShift => M_RSHIFT,
        KeyCode::LControl => M_LCTRL,
        KeyCode::RControl => M_RCTRL,
        KeyCode::LAlt => M_LALT,
        KeyCode::RAltGr => M_RALT,
        KeyCode::RControl2 => M_RCTRL2,
        _ => return None,
    })
}

/// New modifier record after one key event.
pub fn step(bits: u16, k: KeyCode, s: KeyState) -> u16 {
    if let Some(f) = momentary_flag(k) {
        return match s {
            KeyState::Down => bits | f,
            KeyState::Up => bits & !f,
            KeyState::SingleShot => bits,
            #[allow(unreachable_patterns)]
            _ => bits,
        };
    }
    match (k, s) {
        (KeyCode::CapsLock, KeyState::Down) => bits ^ M_CAPSLOCK,
        (KeyCode::NumpadLock, KeyState::Down) => {
            if bits & M_RCTRL2 != 0 {
                bits
            } else {
                bits ^ M_NUMLOCK
            }
        }
        _ => bits,
    }
}

/// What process_keyevent must return, given the pre-state `bits`, for modifier/lock keys
/// (C14). `None` here means "not decided by this function" (ordinary key press).
pub enum Expect {
    Nothing,
    Raw(KeyCode),
    ViaLayout,
    /// keys that are modifier- or lock-like by name but not tracked by the decoder (ScrollLock,
    /// the Win keys, the hidden right Alt of PrintScreen): the statement's "a modifier or lock
    /// key press yields that raw key itself" can be read to cover them, so both RawKey(self)
    /// and the layout's answer are accepted
    RawOrViaLayout(KeyCode),
}

pub fn expect_output(bits: u16, k: KeyCode, s: KeyState) -> Expect {
    match s {
        KeyState::Up | KeyState::SingleShot => Expect::Nothing,
        KeyState::Down => {
            if k == KeyCode::NumpadLock && bits & M_RCTRL2 != 0 {
                Expect::Raw(KeyCode::PauseBreak)
            } else if is_modifier_key(k) {
                Expect::Raw(k)
            } else if matches!(k, KeyCode::ScrollLock | KeyCode::LWin | KeyCode::RWin | KeyCode::RAlt2) {
                Expect::RawOrViaLayout(k)
            } else {
                Expect::ViaLayout
            }
        }
        #[allow(unreachable_patterns)]
        _ => Expect::Nothing,
    }
}

/// Canonical witness history (key events) that drives a fresh decoder to modifier state `bits`:
/// lock toggles first (NumLock must be toggled before RControl2 goes down), then the momentary
/// keys, the hidden Pause-Ctrl last.
pub fn witness_history(bits: u16) -> Vec<(KeyCode, KeyState)> {
    let mut h = Vec::new();
    if bits & M_NUMLOCK == 0 {
        // starts on; one press turns it off
        h.push((KeyCode::NumpadLock, KeyState::Down));
        h.push((KeyCode::NumpadLock, KeyState::Up));
    }
    if bits & M_CAPSLOCK != 0 {
        h.push((KeyCode::CapsLock, KeyState::Down));
        h.push((KeyCode::CapsLock, KeyState::Up));
    }
    for (f, k) in [
        (M_LSHIFT, KeyCode::LShift),
        (M_RSHIFT, KeyCode::RShift),
        (M_LCTRL, KeyCode::LControl),
        (M_RCTRL, KeyCode::RControl),
        (M_LALT, KeyCode::LAlt),
        (M_RALT, KeyCode::RAltGr),
        (M_RCTRL2, KeyCode::RControl2),
    ] {
        if bits & f != 0 {
            h.push((k, KeyState::Down));
        }
    }
    h
}
