//! Reference models (the oracles). Nothing in this module calls into the crate under test;
//! pc_keyboard types are used only as *names* (KeyCode variants, Error variants).
pub mod frame;
pub mod layout_tables;
pub mod mods;
pub mod sc;
