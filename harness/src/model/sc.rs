//! Scancode reference: the README conversion table (transcribed), the Set 1 / Set 2 reference
//! automata written from the statements of C01 / C02, encoders, and the i8042 translation.
use pc_keyboard::{Error, KeyCode, KeyState};
use KeyCode::*;

#[derive(Clone, Copy, Debug, PartialEq, Eq, Hash, PartialOrd, Ord)]
pub enum Pfx {
    None,
    E0,
    E1,
}
pub const PFXS: [Pfx; 3] = [Pfx::None, Pfx::E0, Pfx::E1];
impl Pfx {
    pub fn byte(self) -> Option<u8> {
        match self {
            Pfx::None => None,
            Pfx::E0 => Some(0xE0),
            Pfx::E1 => Some(0xE1),
        }
    }
    pub fn name(self) -> &'static str {
        match self {
            Pfx::None => "plain",
            Pfx::E0 => "E0",
            Pfx::E1 => "E1",
        }
    }
}

const fn s(code: u16) -> Option<(Pfx, u8)> {
    let lo = (code & 0xFF) as u8;
    match code >> 8 {
        0x00 => Some((Pfx::None, lo)),
        0xE0 => Some((Pfx::E0, lo)),
        0xE1 => Some((Pfx::E1, lo)),
        _ => None,
    }
}
const NA: Option<(Pfx, u8)> = None;

/// README "Conversion Table", row by row: (key, Set 1, Set 2).
/// Two README cells contradict the README itself and are resolved by the IBM/Microsoft
/// scan code specification the table transcribes:
///   * NumpadEnter Set 2: README prints 0xE075 (which it also gives to ArrowUp); spec: E0 5A.
///   * Apps Set 1: README prints 0xE05C (which it also gives to RWin); spec: E0 5D.
pub const TABLE: &[(KeyCode, Option<(Pfx, u8)>, Option<(Pfx, u8)>)] = &[
    (Escape, s(0x01), s(0x76)),
    (F1, s(0x3B), s(0x05)),
    (F2, s(0x3C), s(0x06)),
    (F3, s(0x3D), s(0x04)),
    (F4, s(0x3E), s(0x0C)),
    (F5, s(0x3F), s(0x03)),
    (F6, s(0x40), s(0x0B)),
    (F7, s(0x41), s(0x83)),
    (F8, s(0x42), s(0x0A)),
    (F9, s(0x43), s(0x01)),
    (F10, s(0x44), s(0x09)),
    (F11, s(0x57), s(0x78)),
    (F12, s(0x58), s(0x07)),
    (PrintScreen, s(0xE037), s(0xE07C)),
    (SysRq, s(0x54), s(0x7F)),
    (ScrollLock, s(0x46), s(0x7E)),
    // PauseBreak: no scancode (inferred)
    (Oem8, s(0x29), s(0x0E)),
    (Key1, s(0x02), s(0x16)),
    (Key2, s(0x03), s(0x1E)),
    (Key3, s(0x04), s(0x26)),
    (Key4, s(0x05), s(0x25)),
    (Key5, s(0x06), s(0x2E)),
    (Key6, s(0x07), s(0x36)),
    (Key7, s(0x08), s(0x3D)),
    (Key8, s(0x09), s(0x3E)),
    (Key9, s(0x0A), s(0x46)),
    (Key0, s(0x0B), s(0x45)),
    (OemMinus, s(0x0C), s(0x4E)),
    (OemPlus, s(0x0D), s(0x55)),
    (Backspace, s(0x0E), s(0x66)),
    (Insert, s(0xE052), s(0xE070)),
    (Home, s(0xE047), s(0xE06C)),
    (PageUp, s(0xE049), s(0xE07D)),
    (NumpadLock, s(0x45), s(0x77)),
    (NumpadDivide, s(0xE035), s(0xE04A)),
    (NumpadMultiply, s(0x37), s(0x7C)),
    (NumpadSubtract, s(0x4A), s(0x7B)),
    (Tab, s(0x0F), s(0x0D)),
    (Q, s(0x10), s(0x15)),
    (W, s(0x11), s(0x1D)),
    (E, s(0x12), s(0x24)),
    (R, s(0x13), s(0x2D)),
    (T, s(0x14), s(0x2C)),
    (Y, s(0x15), s(0x35)),
    (U, s(0x16), s(0x3C)),
    (I, s(0x17), s(0x43)),
    (O, s(0x18), s(0x44)),
    (P, s(0x19), s(0x4D)),
    (Oem4, s(0x1A), s(0x54)),
    (Oem6, s(0x1B), s(0x5B)),
    (Oem5, s(0x56), s(0x61)),
    (Oem7, s(0x2B), s(0x5D)),
    (Delete, s(0xE053), s(0xE071)),
    (End, s(0xE04F), s(0xE069)),
    (PageDown, s(0xE051), s(0xE07A)),
    (Numpad7, s(0x47), s(0x6C)),
    (Numpad8, s(0x48), s(0x75)),
    (Numpad9, s(0x49), s(0x7D)),
    (NumpadAdd, s(0x4E), s(0x79)),
    (CapsLock, s(0x3A), s(0x58)),
    (A, s(0x1E), s(0x1C)),
    (S, s(0x1F), s(0x1B)),
    (D, s(0x20), s(0x23)),
    (F, s(0x21), s(0x2B)),
    (G, s(0x22), s(0x34)),
    (H, s(0x23), s(0x33)),
    (J, s(0x24), s(0x3B)),
    (K, s(0x25), s(0x42)),
    (L, s(0x26), s(0x4B)),
    (Oem1, s(0x27), s(0x4C)),
    (Oem3, s(0x28), s(0x52)),
    (Return, s(0x1C), s(0x5A)),
    (Numpad4, s(0x4B), s(0x6B)),
    (Numpad5, s(0x4C), s(0x73)),
    (Numpad6, s(0x4D), s(0x74)),
    (LShift, s(0x2A), s(0x12)),
    (Z, s(0x2C), s(0x1A)),
    (X, s(0x2D), s(0x22)),
    (C, s(0x2E), s(0x21)),
    (V, s(0x2F), s(0x2A)),
    (B, s(0x30), s(0x32)),
    (N, s(0x31), s(0x31)),
    (M, s(0x32), s(0x3A)),
    (OemComma, s(0x33), s(0x41)),
    (OemPeriod, s(0x34), s(0x49)),
    (Oem2, s(0x35), s(0x4A)),
    (RShift, s(0x36), s(0x59)),
    (ArrowUp, s(0xE048), s(0xE075)),
    (Numpad1, s(0x4F), s(0x69)),
    (Numpad2, s(0x50), s(0x72)),
    (Numpad3, s(0x51), s(0x7A)),
    (NumpadEnter, s(0xE01C), s(0xE05A)), // README typo 0xE075 resolved, see above
    (LControl, s(0x1D), s(0x14)),
    (LWin, s(0xE05B), s(0xE01F)),
    (LAlt, s(0x38), s(0x11)),
    (Spacebar, s(0x39), s(0x29)),
    (RAltGr, s(0xE038), s(0xE011)),
    (RWin, s(0xE05C), s(0xE027)),
    (Apps, s(0xE05D), s(0xE02F)), // README typo 0xE05C resolved, see above
    (RControl, s(0xE01D), s(0xE014)),
    (ArrowLeft, s(0xE04B), s(0xE06B)),
    (ArrowDown, s(0xE050), s(0xE072)),
    (ArrowRight, s(0xE04D), s(0xE074)),
    (Numpad0, s(0x52), s(0x70)),
    (NumpadPeriod, s(0x53), s(0x71)),
    (Oem9, s(0x7B), s(0x67)),
    (Oem10, s(0x79), s(0x64)),
    (Oem11, s(0x70), s(0x13)),
    (Oem12, s(0x73), s(0x51)),
    (Oem13, s(0x7D), s(0x6A)),
    (PrevTrack, s(0xE010), s(0xE015)),
    (NextTrack, s(0xE019), s(0xE04D)),
    (Mute, s(0xE020), s(0xE023)),
    (Calculator, s(0xE021), s(0xE02B)),
    (Play, s(0xE022), s(0xE034)),
    (Stop, s(0xE024), s(0xE03B)),
    (VolumeDown, s(0xE02E), s(0xE021)),
    (VolumeUp, s(0xE030), s(0xE032)),
    (WWWHome, s(0xE032), s(0xE03A)),
    (TooManyKeys, NA, s(0x00)),
    (PowerOnTestOk, NA, s(0xAA)),
    (RControl2, s(0xE11D), s(0xE114)),
    (RAlt2, s(0xE02A), s(0xE012)),
];

pub fn set2_lookup(p: Pfx, code: u8) -> Option<KeyCode> {
    TABLE
        .iter()
        .find(|(_, _, s2)| *s2 == Some((p, code)))
        .map(|(k, _, _)| *k)
}
pub fn set1_lookup(p: Pfx, code: u8) -> Option<KeyCode> {
    TABLE
        .iter()
        .find(|(_, s1, _)| *s1 == Some((p, code)))
        .map(|(k, _, _)| *k)
}
pub fn set2_of(k: KeyCode) -> Option<(Pfx, u8)> {
    TABLE.iter().find(|(x, _, _)| *x == k).and_then(|(_, _, s2)| *s2)
}
pub fn set1_of(k: KeyCode) -> Option<(Pfx, u8)> {
    TABLE.iter().find(|(x, _, _)| *x == k).and_then(|(_, s1, _)| *s1)
}

/// Expected result of one decoder step.
#[derive(Clone, Copy, Debug, PartialEq, Eq)]
pub enum Out {
    None,
    Ev(KeyCode, KeyState),
    Unknown,
}
impl Out {
    pub fn matches(&self, r: &Result<Option<pc_keyboard::KeyEvent>, Error>) -> bool {
        match (self, r) {
            (Out::None, Ok(None)) => true,
            (Out::Ev(k, s), Ok(Some(e))) => e.code == *k && e.state == *s,
            (Out::Unknown, Err(Error::UnknownKeyCode)) => true,
            _ => false,
        }
    }
    pub fn text(&self) -> String {
        match self {
            Out::None => "None".into(),
            Out::Ev(k, s) => format!("{}({:?})", crate::universe::state_name(*s), k),
            Out::Unknown => "Err(UnknownKeyCode)".into(),
        }
    }
    pub fn is_event_or_error(&self) -> bool {
        !matches!(self, Out::None)
    }
}

// ---------------------------------------------------------------------------------------
// Set 2 reference automaton
// ---------------------------------------------------------------------------------------
#[derive(Clone, Copy, Debug, PartialEq, Eq, Hash, PartialOrd, Ord)]
pub enum Ctx2 {
    Start,
    E0,
    E1,
    F0,
    E0F0,
    E1F0,
}
pub const CTX2S: [Ctx2; 6] = [Ctx2::Start, Ctx2::E0, Ctx2::E1, Ctx2::F0, Ctx2::E0F0, Ctx2::E1F0];
impl Ctx2 {
    pub fn name(self) -> &'static str {
        match self {
            Ctx2::Start => "start",
            Ctx2::E0 => "E0",
            Ctx2::E1 => "E1",
            Ctx2::F0 => "F0",
            Ctx2::E0F0 => "E0.F0",
            Ctx2::E1F0 => "E1.F0",
        }
    }
    /// shortest byte history reaching this context from a fresh decoder *in the model*
    pub fn history(self) -> &'static [u8] {
        match self {
            Ctx2::Start => &[],
            Ctx2::E0 => &[0xE0],
            Ctx2::E1 => &[0xE1],
            Ctx2::F0 => &[0xF0],
            Ctx2::E0F0 => &[0xE0, 0xF0],
            Ctx2::E1F0 => &[0xE1, 0xF0],
        }
    }
    pub fn pfx(self) -> Pfx {
        match self {
            Ctx2::Start | Ctx2::F0 => Pfx::None,
            Ctx2::E0 | Ctx2::E0F0 => Pfx::E0,
            Ctx2::E1 | Ctx2::E1F0 => Pfx::E1,
        }
    }
    pub fn is_release(self) -> bool {
        matches!(self, Ctx2::F0 | Ctx2::E0F0 | Ctx2::E1F0)
    }
}

/// Cells on which the statement of C01 admits more than one reading: `F0 00` and `F0 AA`
/// (a *prefixed* status byte). The literal reading ("a release after F0" of the key the
/// table assigns to the code) gives Up(key); a decoder that treats a status byte as a
/// status byte whatever precedes it (SingleShot) or rejects it (UnknownKeyCode) also
/// satisfies every sentence of the statement. All three are accepted; another key is not.
pub fn set2_lenient(ctx: Ctx2, b: u8) -> bool {
    ctx == Ctx2::F0 && (b == 0x00 || b == 0xAA)
}

pub fn set2_step(ctx: Ctx2, b: u8) -> (Out, Ctx2) {
    match ctx {
        Ctx2::Start => match b {
            0xE0 => (Out::None, Ctx2::E0),
            0xE1 => (Out::None, Ctx2::E1),
            0xF0 => (Out::None, Ctx2::F0),
            _ => {
                let o = match set2_lookup(Pfx::None, b) {
                    Some(k) if b == 0x00 || b == 0xAA => Out::Ev(k, KeyState::SingleShot),
                    Some(k) => Out::Ev(k, KeyState::Down),
                    None => Out::Unknown,
                };
                (o, Ctx2::Start)
            }
        },
        Ctx2::E0 | Ctx2::E1 => {
            if b == 0xF0 {
                (Out::None, if ctx == Ctx2::E0 { Ctx2::E0F0 } else { Ctx2::E1F0 })
            } else {
                let o = match set2_lookup(ctx.pfx(), b) {
                    Some(k) => Out::Ev(k, KeyState::Down),
                    None => Out::Unknown,
                };
                (o, Ctx2::Start)
            }
        }
        Ctx2::F0 | Ctx2::E0F0 | Ctx2::E1F0 => {
            let o = match set2_lookup(ctx.pfx(), b) {
                Some(k) => Out::Ev(k, KeyState::Up),
                None => Out::Unknown,
            };
            (o, Ctx2::Start)
        }
    }
}

/// Does the real output satisfy the model on this cell (including the lenient cells)?
pub fn set2_accepts(ctx: Ctx2, b: u8, r: &Result<Option<pc_keyboard::KeyEvent>, Error>) -> bool {
    let (want, _) = set2_step(ctx, b);
    if want.matches(r) {
        return true;
    }
    if set2_lenient(ctx, b) {
        if let Out::Ev(k, _) = want {
            return match r {
                Ok(Some(e)) => e.code == k && e.state == KeyState::SingleShot,
                Err(Error::UnknownKeyCode) => true,
                _ => false,
            };
        }
    }
    false
}

// ---------------------------------------------------------------------------------------
// Set 1 reference automaton
// ---------------------------------------------------------------------------------------
#[derive(Clone, Copy, Debug, PartialEq, Eq, Hash, PartialOrd, Ord)]
pub enum Ctx1 {
    Start,
    E0,
    E1,
}
pub const CTX1S: [Ctx1; 3] = [Ctx1::Start, Ctx1::E0, Ctx1::E1];
impl Ctx1 {
    pub fn name(self) -> &'static str {
        match self {
            Ctx1::Start => "start",
            Ctx1::E0 => "E0",
            Ctx1::E1 => "E1",
        }
    }
    pub fn history(self) -> &'static [u8] {
        match self {
            Ctx1::Start => &[],
            Ctx1::E0 => &[0xE0],
            Ctx1::E1 => &[0xE1],
        }
    }
    pub fn pfx(self) -> Pfx {
        match self {
            Ctx1::Start => Pfx::None,
            Ctx1::E0 => Pfx::E0,
            Ctx1::E1 => Pfx::E1,
        }
    }
}

pub fn set1_step(ctx: Ctx1, b: u8) -> (Out, Ctx1) {
    if ctx == Ctx1::Start {
        if b == 0xE0 {
            return (Out::None, Ctx1::E0);
        }
        if b == 0xE1 {
            return (Out::None, Ctx1::E1);
        }
    }
    let code = b & 0x7F;
    let st = if b & 0x80 != 0 { KeyState::Up } else { KeyState::Down };
    let o = match set1_lookup(ctx.pfx(), code) {
        Some(k) => Out::Ev(k, st),
        None => Out::Unknown,
    };
    (o, Ctx1::Start)
}

// ---------------------------------------------------------------------------------------
// Encoders (used by generators; the inverse direction of the table)
// ---------------------------------------------------------------------------------------
pub fn set2_encode(k: KeyCode, st: KeyState) -> Option<Vec<u8>> {
    let (p, c) = set2_of(k)?;
    let mut v = Vec::new();
    if let Some(b) = p.byte() {
        v.push(b);
    }
    match st {
        KeyState::Up => v.push(0xF0),
        KeyState::Down => {}
        KeyState::SingleShot => {
            if !(p == Pfx::None && (c == 0x00 || c == 0xAA)) {
                return None;
            }
        }
        #[allow(unreachable_patterns)]
        _ => return None,
    }
    if st == KeyState::Down && p == Pfx::None && (c == 0x00 || c == 0xAA) {
        return None;
    }
    v.push(c);
    Some(v)
}

pub fn set1_encode(k: KeyCode, st: KeyState) -> Option<Vec<u8>> {
    let (p, c) = set1_of(k)?;
    let mut v = Vec::new();
    if let Some(b) = p.byte() {
        v.push(b);
    }
    match st {
        KeyState::Down => v.push(c),
        KeyState::Up => v.push(c | 0x80),
        KeyState::SingleShot => return None,
        #[allow(unreachable_patterns)]
        _ => return None,
    }
    Some(v)
}

// ---------------------------------------------------------------------------------------
// i8042 Set 2 -> Set 1 translation (C13). The standard 8042 table for 0x00..0x7F as in the
// IBM AT technical reference / Brouwer's scancode notes / Linux atkbd; 0x83 -> 0x41,
// 0x84 -> 0x54; other codes >= 0x80 are not translated.
// ---------------------------------------------------------------------------------------
pub const XLAT: [u8; 128] = [
    0xff, 0x43, 0x41, 0x3f, 0x3d, 0x3b, 0x3c, 0x58, 0x64, 0x44, 0x42, 0x40, 0x3e, 0x0f, 0x29, 0x59,
    0x65, 0x38, 0x2a, 0x70, 0x1d, 0x10, 0x02, 0x5a, 0x66, 0x71, 0x2c, 0x1f, 0x1e, 0x11, 0x03, 0x5b,
    0x67, 0x2e, 0x2d, 0x20, 0x12, 0x05, 0x04, 0x5c, 0x68, 0x39, 0x2f, 0x21, 0x14, 0x13, 0x06, 0x5d,
    0x69, 0x31, 0x30, 0x23, 0x22, 0x15, 0x07, 0x5e, 0x6a, 0x72, 0x32, 0x24, 0x16, 0x08, 0x09, 0x5f,
    0x6b, 0x33, 0x25, 0x17, 0x18, 0x0b, 0x0a, 0x60, 0x6c, 0x34, 0x35, 0x26, 0x27, 0x19, 0x0c, 0x61,
    0x6d, 0x73, 0x28, 0x74, 0x1a, 0x0d, 0x62, 0x6e, 0x3a, 0x36, 0x1c, 0x1b, 0x75, 0x2b, 0x63, 0x76,
    0x55, 0x56, 0x77, 0x78, 0x79, 0x7a, 0x0e, 0x7b, 0x7c, 0x4f, 0x7d, 0x4b, 0x47, 0x7e, 0x7f, 0x6f,
    0x52, 0x53, 0x50, 0x4c, 0x4d, 0x48, 0x01, 0x45, 0x57, 0x4e, 0x51, 0x4a, 0x37, 0x49, 0x46, 0x54,
];

/// Set 2 code bytes that have a translation: 0x01..=0x7F, 0x83, 0x84.
pub fn xlat_code(c: u8) -> Option<u8> {
    match c {
        0x01..=0x7F => Some(XLAT[c as usize]),
        0x83 => Some(0x41),
        0x84 => Some(0x54),
        _ => None,
    }
}
pub fn xlat_domain() -> Vec<u8> {
    let mut v: Vec<u8> = (0x01..=0x7Fu8).collect();
    v.push(0x83);
    v.push(0x84);
    v
}

/// Stream form of the controller: F0 sets a break flag and emits nothing, E0/E1 pass through,
/// any translatable byte emits T[b] | 0x80-if-break. Returns None if the stream contains a
/// byte without translation in code position (the controller's behaviour there is outside the
/// property).
pub fn xlat_stream(s2: &[u8]) -> Option<Vec<u8>> {
    let mut out = Vec::new();
    let mut brk = false;
    for &b in s2 {
        match b {
            0xF0 => brk = true,
            0xE0 | 0xE1 => out.push(b),
            _ => {
                let t = xlat_code(b)?;
                out.push(t | if brk { 0x80 } else { 0 });
                brk = false;
            }
        }
    }
    if brk {
        return None;
    }
    Some(out)
}
