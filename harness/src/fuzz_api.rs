//! Glue between the coverage-guided fuzz targets (/verif/fuzz) and the harness' strict
//! evaluators: fuzzer bytes are decoded into the same structured cases the random and
//! exhaustive layers use (so mutations reach logic instead of dying in input validation), the
//! semantic oracle of the property named by PCKB_PROP runs inside the target, and a violation
//! is a panic whose message starts with `property=<id> sig=`.
use crate::checks;
use crate::checks::kbd::ops_text;
use crate::gen::{self, FlatEv, Op};
use crate::model::frame;
use crate::model::sc::{self, Ctx2, Out};
use crate::report::{load_known_findings, Finding, Run, Tier, Violation};
use crate::universe::*;
use serde_json::{json, Value};
use std::sync::OnceLock;

static KNOWN: OnceLock<std::sync::Arc<Vec<Finding>>> = OnceLock::new();
static PROP: OnceLock<String> = OnceLock::new();

pub const TARGETS: [(&str, &[&str]); 6] = [
    ("set2_stream", &["C01", "C07", "C08", "C13", "C19"]),
    ("set1_stream", &["C02", "C07", "C08", "C19"]),
    ("ps2_bits", &["C05", "C06", "C08"]),
    ("events", &["C04", "C14", "C08"]),
    ("kbd_ops_set2", &["C18", "C08"]),
    ("kbd_ops_set1", &["C18", "C08"]),
];

pub fn targets_for(prop: &str) -> Vec<&'static str> {
    TARGETS.iter().filter(|(_, ps)| ps.contains(&prop)).map(|(t, _)| *t).collect()
}

// ---------------------------------------------------------------------------------------
// decoders
// ---------------------------------------------------------------------------------------
pub fn decode_ops(data: &[u8], wide: bool) -> Vec<Op> {
    let mut ops = Vec::new();
    let mut i = 0;
    let next = |i: &mut usize| -> u8 {
        let b = data.get(*i).copied().unwrap_or(0);
        *i += 1;
        b
    };
    while i < data.len() && ops.len() < 4096 {
        let tag = next(&mut i);
        match tag {
            0..=63 => ops.push(Op::Bit(tag & 1 != 0)),
            64..=95 => ops.push(Op::Byte(next(&mut i))),
            96..=127 => ops.push(Op::Word(frame::encode(next(&mut i)))),
            128..=143 => {
                let w = u16::from_le_bytes([next(&mut i), next(&mut i)]);
                ops.push(Op::Word(if wide { w } else { w & 0x7FF }));
            }
            144..=159 => ops.push(Op::Word(frame::encode(next(&mut i)) ^ (1 << ((tag & 0xF) % 11)))),
            160..=175 => {
                let w = frame::encode(next(&mut i));
                ops.extend((0..11).map(|j| Op::Bit((w >> j) & 1 != 0)));
            }
            176..=191 => {
                let w = frame::encode(next(&mut i)) ^ (1 << ((tag & 0xF) % 11));
                ops.extend((0..11).map(|j| Op::Bit((w >> j) & 1 != 0)));
            }
            192..=223 => {
                let k = next(&mut i) as usize;
                let key = if k < ALL_KEYS.len() { ALL_KEYS[k] } else { gen::MOD_KEYS[k % 9] };
                ops.push(Op::Event(key, KEY_STATES[(tag % 3) as usize]));
            }
            224..=239 => ops.push(Op::Clear),
            _ => ops.push(Op::SetCtrl(MODES[(tag & 1) as usize])),
        }
    }
    ops
}

pub fn encode_ops(ops: &[Op]) -> Vec<u8> {
    let mut v = Vec::new();
    for o in ops {
        match o {
            Op::Bit(b) => v.push(*b as u8),
            Op::Byte(b) => v.extend([64, *b]),
            Op::Word(w) => {
                v.push(128);
                v.extend(w.to_le_bytes());
            }
            Op::Event(k, s) => {
                let st = KEY_STATES.iter().position(|x| x == s).unwrap() as u8;
                // tag % 3 == st, tag in 192..=223
                let tag = (192..=223u8).find(|t| t % 3 == st).unwrap();
                v.extend([tag, key_idx(*k) as u8]);
            }
            Op::Clear => v.push(224),
            Op::SetCtrl(m) => v.push(240 + mode_idx(*m) as u8),
        }
    }
    v
}

pub fn decode_bitops(data: &[u8]) -> Vec<gen::BitOp> {
    decode_ops(data, false)
        .into_iter()
        .filter_map(|o| match o {
            Op::Bit(b) => Some(gen::BitOp::Bit(b)),
            Op::Clear => Some(gen::BitOp::Clear),
            Op::Word(w) => Some(gen::BitOp::Bit(w & 2 != 0)),
            _ => None,
        })
        .collect()
}

pub fn decode_events(data: &[u8]) -> (HandleControl, Vec<FlatEv>) {
    let start = MODES[(data.first().copied().unwrap_or(0) & 1) as usize];
    let mut v = Vec::new();
    for pair in data.get(1..).unwrap_or(&[]).chunks(2) {
        let a = pair[0] as usize;
        let b = pair.get(1).copied().unwrap_or(0);
        if a < ALL_KEYS.len() {
            v.push(FlatEv::Key(ALL_KEYS[a], KEY_STATES[(b % 3) as usize]));
        } else if a < 215 {
            v.push(FlatEv::Key(gen::MOD_KEYS[a % 9], KEY_STATES[(b % 3) as usize]));
        } else if a < 235 {
            v.push(FlatEv::SetMode(MODES[(b & 1) as usize]));
        } else {
            v.push(FlatEv::ChangeLayout(b % 8));
        }
    }
    (start, v)
}

/// Build a Set 2 stream of WELL-FORMED translatable cells from arbitrary bytes (construction,
/// not rejection): each pair of input bytes selects (prefix, make/break, code). What the
/// controller does with malformed input (F0 F0, a prefix in code position) is outside C13.
fn to_xlat_cells(data: &[u8]) -> Vec<u8> {
    let dom = sc::xlat_domain();
    let mut out = Vec::new();
    for pair in data.chunks(2) {
        let a = pair[0];
        let c = dom[(pair.get(1).copied().unwrap_or(0) as usize) % dom.len()];
        let brk = a & 4 != 0;
        // the break of 47 / 4F translates to the bytes E0 / E1 (not a complete Set 1 sequence)
        if brk && matches!(sc::xlat_code(c), Some(t) if matches!(t | 0x80, 0xE0 | 0xE1)) {
            continue;
        }
        match a % 3 {
            1 => out.push(0xE0),
            2 => out.push(0xE1),
            _ => {}
        }
        if brk {
            out.push(0xF0);
        }
        out.push(c);
    }
    out
}

/// Does the Set 2 stream contain a complete sequence whose two decodings already disagree
/// when decoded alone (cell-level disagreement: reported by the exhaustive layer of C13, and
/// the place where the listed known finding lives)? Such inputs are excluded by construction.
fn c13_contains_disagreeing_cell(s2: &[u8]) -> bool {
    let mut c = Ctx2::Start;
    let mut seq: Vec<u8> = Vec::new();
    for b in s2 {
        seq.push(*b);
        let (o, n) = sc::set2_step(c, *b);
        if !matches!(o, Out::None) {
            if let Some(s1) = sc::xlat_stream(&seq) {
                let e2 = crate::graph::run_bytes::<ScancodeSet2>(&seq).ok().and_then(|v| v.last().cloned()).and_then(|o| o.ok().flatten());
                let e1 = crate::graph::run_bytes::<ScancodeSet1>(&s1).ok().and_then(|v| v.last().cloned()).and_then(|o| o.ok().flatten());
                if e2 != e1 {
                    return true;
                }
            }
            seq.clear();
        }
        c = n;
    }
    false
}

/// The replay case (same JSON kinds as the harness' replay files) for a fuzz input, or None
/// if the input is outside the property's domain (excluded by construction).
pub fn decode_case(target: &str, prop: &str, data: &[u8]) -> Option<Value> {
    let set2 = target.ends_with("set2") || target == "set2_stream";
    let set = if set2 { "set2" } else { "set1" };
    match (target, prop) {
        ("set2_stream", "C01") | ("set1_stream", "C02") => Some(json!({"kind":"sc_stream","set":set,"bytes":data})),
        ("set2_stream", "C07") | ("set1_stream", "C07") => Some(json!({"kind":"resync_stream","set":set,"bytes":data})),
        ("set2_stream", "C08") | ("set1_stream", "C08") => Some(json!({"kind":"c08_bytes","set":set,"bytes":data})),
        ("set2_stream", "C19") | ("set1_stream", "C19") => {
            // history | sequence : split at the first 0xFF-free midpoint given by byte 0
            if data.len() < 2 {
                return None;
            }
            let cut = 1 + (data[0] as usize) % (data.len() - 1);
            let (h, q) = (&data[1..cut.max(1)], &data[cut.max(1)..]);
            // the history must be a run of complete sequences (end in an event or error): trim it
            let outs = if set2 { crate::graph::run_bytes::<ScancodeSet2>(h).ok()? } else { crate::graph::run_bytes::<ScancodeSet1>(h).ok()? };
            let end = outs.iter().rposition(|o| !matches!(o, Ok(None))).map(|p| p + 1).unwrap_or(0);
            Some(json!({"kind":"pair_after","set":set,"history":&h[..end],"seq":q}))
        }
        ("set2_stream", "C13") => {
            if data.is_empty() {
                return None;
            }
            let layout = (data[0] as usize) % N_LAYOUTS;
            let s2 = to_xlat_cells(&data[1..]);
            sc::xlat_stream(&s2)?;
            if c13_contains_disagreeing_cell(&s2) {
                return None;
            }
            Some(json!({"kind":"xlat_e2e","layout":LAYOUT_NAMES[layout],"set2_bytes":s2}))
        }
        ("ps2_bits", "C06") | ("ps2_bits", "C05") => {
            let ops = decode_bitops(data);
            Some(json!({"kind":"bits","ops":checks::frame::ops_compact(&ops)}))
        }
        ("ps2_bits", "C08") => {
            let ops: Vec<Op> = decode_ops(data, true).into_iter().filter(|o| matches!(o, Op::Bit(_) | Op::Clear | Op::Word(_))).collect();
            Some(json!({"kind":"c08_ops","set":"set2","layout":"Us104Key","ops":ops.iter().map(gen::op_json).collect::<Vec<_>>()}))
        }
        ("events", "C04") | ("events", "C14") => {
            let (start, h) = decode_events(data);
            Some(json!({"kind":"ev_history","start_mode":mode_name(start),"ops":checks::events::history_json(&h)}))
        }
        ("events", "C08") => {
            let (_, h) = decode_events(data);
            let ops: Vec<Op> = h.iter().filter_map(|f| match f { FlatEv::Key(k, s) => Some(Op::Event(*k, *s)), FlatEv::SetMode(m) => Some(Op::SetCtrl(*m)), _ => None }).collect();
            let l = data.first().map(|b| (*b as usize >> 1) % N_LAYOUTS).unwrap_or(0);
            Some(json!({"kind":"c08_ops","set":"set2","layout":LAYOUT_NAMES[l],"ops":ops.iter().map(gen::op_json).collect::<Vec<_>>()}))
        }
        ("kbd_ops_set1", "C18") | ("kbd_ops_set2", "C18") => {
            let start = MODES[(data.first().copied().unwrap_or(0) & 1) as usize];
            let ops = decode_ops(data.get(1..).unwrap_or(&[]), false);
            Some(json!({"kind":"kbd_ops","set":set,"start_mode":mode_name(start),"ops":ops.iter().map(gen::op_json).collect::<Vec<_>>(),"text":ops_text(&ops)}))
        }
        ("kbd_ops_set1", "C08") | ("kbd_ops_set2", "C08") => {
            let l = data.first().map(|b| (*b as usize) % N_LAYOUTS).unwrap_or(0);
            let ops = decode_ops(data.get(1..).unwrap_or(&[]), true);
            Some(json!({"kind":"c08_ops","set":set,"layout":LAYOUT_NAMES[l],"ops":ops.iter().map(gen::op_json).collect::<Vec<_>>(),"text":ops_text(&ops)}))
        }
        _ => None,
    }
}

/// Evaluate one fuzz input with the strict evaluators; returns the violations that are not
/// listed known findings.
pub fn eval(target: &str, prop: &str, data: &[u8]) -> Vec<Violation> {
    let Some(case) = decode_case(target, prop, data) else { return Vec::new() };
    let known = KNOWN.get_or_init(|| std::sync::Arc::new(load_known_findings())).clone();
    let mut run = Run::new_with(prop, Tier::Quick, 0, known);
    checks::replay_case(prop, &mut run, &case);
    let vs: Vec<Violation> = run.violations.values().filter(|v| !run.is_known(&v.sig)).cloned().collect();
    vs
}

/// Entry point of every fuzz target.
pub fn run_target(target: &str, data: &[u8]) {
    let prop = PROP.get_or_init(|| {
        crate::report::install_panic_hook();
        std::env::var("PCKB_PROP").unwrap_or_else(|_| targets_default(target).to_string())
    });
    let vs = eval(target, prop, data);
    if let Some(v) = vs.first() {
        // leave the quiet hook so libFuzzer's crash report shows the message
        let _ = std::panic::take_hook();
        panic!("property={} sig={} :: {}", prop, v.sig, v.what);
    }
}

fn targets_default(target: &str) -> &'static str {
    TARGETS.iter().find(|(t, _)| *t == target).map(|(_, p)| p[0]).unwrap_or("C08")
}

/// Delta-debugging (ddmin) on the raw fuzz input against the same oracle: smallest input that
/// still violates the same property (not `cargo fuzz tmin`, which minimises to any crash).
pub fn minimize(target: &str, prop: &str, data: &[u8]) -> Vec<u8> {
    let fails = |d: &[u8]| !eval(target, prop, d).is_empty();
    if !fails(data) {
        return data.to_vec();
    }
    let mut cur = data.to_vec();
    let mut n = 2usize;
    while cur.len() >= 2 {
        let chunk = (cur.len() + n - 1) / n;
        let mut reduced = false;
        let mut i = 0;
        while i < cur.len() {
            let mut cand = cur[..i].to_vec();
            cand.extend_from_slice(&cur[(i + chunk).min(cur.len())..]);
            if !cand.is_empty() && fails(&cand) {
                cur = cand;
                n = n.saturating_sub(1).max(2);
                reduced = true;
                break;
            }
            i += chunk;
        }
        if !reduced {
            if n >= cur.len() {
                break;
            }
            n = (n * 2).min(cur.len());
        }
    }
    // byte-value simplification: try zeroing / lowering bytes
    for i in 0..cur.len() {
        for v in [0u8, 1, 0x1C] {
            if cur[i] != v {
                let mut cand = cur.clone();
                cand[i] = v;
                if fails(&cand) {
                    cur = cand;
                    break;
                }
            }
        }
    }
    cur
}

/// Seed corpus: the byte/bit/event scripts of the repository's own tests plus one valid
/// sequence per key, in each target's input encoding.
pub fn write_seeds(dir: &std::path::Path) -> std::io::Result<usize> {
    let mut n = 0;
    let mut put = |target: &str, name: &str, bytes: &[u8]| -> std::io::Result<()> {
        let d = dir.join(target);
        std::fs::create_dir_all(&d)?;
        std::fs::write(d.join(name), bytes)?;
        n += 1;
        Ok(())
    };
    // scancode streams
    for (set2, target) in [(true, "set2_stream"), (false, "set1_stream")] {
        let mut all = Vec::new();
        for (i, chunk) in sc::TABLE.chunks(12).enumerate() {
            let mut v = Vec::new();
            for (k, _, _) in chunk {
                for st in [KeyState::Down, KeyState::Up] {
                    if let Some(b) = if set2 { sc::set2_encode(*k, st) } else { sc::set1_encode(*k, st) } {
                        v.extend(b);
                    }
                }
            }
            put(target, &format!("keys{:02}", i), &v)?;
            all.extend(v);
        }
        // the repository's own test scripts
        if set2 {
            put(target, "pause", &[0xE1, 0x14, 0x77, 0xE1, 0xF0, 0x14, 0xF0, 0x77])?;
            put(target, "printscreen", &[0xE0, 0x12, 0xE0, 0x7C, 0xE0, 0xF0, 0x7C, 0xE0, 0xF0, 0x12])?;
            put(target, "status", &[0xAA, 0x00, 0xF0, 0x00, 0xE0, 0xAA])?;
        } else {
            put(target, "pause", &[0xE1, 0x1D, 0x45, 0xE1, 0x9D, 0xC5])?;
            put(target, "printscreen", &[0xE0, 0x2A, 0xE0, 0x37, 0xE0, 0xB7, 0xE0, 0xAA])?;
        }
        put(target, "garbage", &[0xE0, 0xE0, 0xF0, 0xF0, 0xE1, 0xF0, 0xE0, 0x02, 0xFF, 0x7F])?;
    }
    // bits
    let mut ops = Vec::new();
    for b in [0x01u8, 0x03, 0xF0, 0xE0, 0x1C] {
        ops.extend([160u8, b]);
    }
    put("ps2_bits", "valid_frames", &ops)?;
    put("ps2_bits", "corrupt_then_valid", &[176, 0x1C, 160, 0x1C, 0, 1, 1, 224, 160, 0xF0, 181, 0x12, 160, 0x12])?;
    // events
    let ev = |pairs: &[(KeyCode, KeyState)]| -> Vec<u8> {
        let mut v = vec![0u8];
        for (k, s) in pairs {
            v.push(key_idx(*k) as u8);
            v.push(KEY_STATES.iter().position(|x| x == s).unwrap() as u8);
        }
        v
    };
    use KeyCode::*;
    use KeyState::*;
    put("events", "pause", &ev(&[(RControl2, Down), (NumpadLock, Down), (RControl2, Up), (NumpadLock, Up)]))?;
    put("events", "shift_caps", &ev(&[(LShift, Down), (A, Down), (A, Up), (LShift, Up), (CapsLock, Down), (CapsLock, Up), (X, Down), (RShift, Down), (X, Down)]))?;
    put("events", "ctrl_altgr", &ev(&[(LControl, Down), (A, Down), (RAltGr, Down), (Q, Down), (LAlt, Down), (RControl, Down), (LControl, Up), (Key7, Down)]))?;
    // keyboard ops
    for (set2, target) in [(true, "kbd_ops_set2"), (false, "kbd_ops_set1")] {
        let mut ops: Vec<Op> = Vec::new();
        for (k, st) in [(LShift, Down), (A, Down), (A, Up), (LShift, Up), (ArrowUp, Down), (ArrowUp, Up), (RControl2, Down), (NumpadLock, Down)] {
            if let Some(b) = if set2 { sc::set2_encode(k, st) } else { sc::set1_encode(k, st) } {
                ops.extend(b.into_iter().map(Op::Byte));
            }
        }
        let mut v = vec![0u8];
        v.extend(encode_ops(&ops));
        put(target, "typed_bytes", &v)?;
        // the same through frames, with noise
        let mut v = vec![1u8];
        for o in &ops {
            if let Op::Byte(b) = o {
                v.extend([160, *b]);
            }
        }
        v.extend([176, 0xE0, 0, 1, 1, 224, 96, 0xE0, 146, 0x75, 96, 0x75, 200, key_idx(A) as u8, 241]);
        put(target, "framed_with_noise", &v)?;
    }
    Ok(n)
}
