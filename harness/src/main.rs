use pckb_verif::checks;
use pckb_verif::report::{install_panic_hook, verif_dir, Run, Tier};
use std::process::exit;

fn usage() -> ! {
    eprintln!("usage: pckb-check <C01..C20> [--tier quick|thorough] [--replay <file>] [--regress]");
    exit(2)
}

fn main() {
    let args: Vec<String> = std::env::args().skip(1).collect();
    if args.is_empty() {
        usage();
    }
    let id = args[0].to_uppercase();
    if !checks::ALL_IDS.contains(&id.as_str()) {
        usage();
    }
    let mut tier = match std::env::var("VERIF_TIER").ok().as_deref() {
        Some("thorough") => Tier::Thorough,
        _ => Tier::Quick,
    };
    let mut replay: Option<String> = None;
    let mut i = 1;
    while i < args.len() {
        match args[i].as_str() {
            "--tier" => {
                i += 1;
                tier = match args.get(i).map(|s| s.as_str()) {
                    Some("quick") => Tier::Quick,
                    Some("thorough") => Tier::Thorough,
                    _ => usage(),
                };
            }
            "--replay" => {
                i += 1;
                replay = Some(args.get(i).cloned().unwrap_or_else(|| usage()));
            }
            _ => usage(),
        }
        i += 1;
    }
    let seed: u64 = std::env::var("VERIF_SEED").ok().and_then(|s| s.trim().parse::<i64>().ok()).map(|x| x as u64).unwrap_or(0);
    install_panic_hook();
    let mut run = Run::new(&id, tier, seed);

    if let Some(path) = replay {
        run.replay_mode = true;
        let txt = std::fs::read_to_string(&path).unwrap_or_else(|e| {
            eprintln!("cannot read replay file {}: {}", path, e);
            exit(2)
        });
        let v: serde_json::Value = serde_json::from_str(&txt).unwrap_or_else(|e| {
            eprintln!("replay file {} is not JSON: {}", path, e);
            exit(2)
        });
        let case = if v.get("case").is_some() { v["case"].clone() } else { v.clone() };
        if !checks::replay_case(&id, &mut run, &case) {
            eprintln!("replay: unknown case kind in {}", path);
            exit(2);
        }
        exit(run.finish());
    }

    // regression tier: committed minimal reproductions of earlier (seeded) failures run first
    let reg_dir = verif_dir().join("replays").join(&id);
    let mut regress = 0;
    if let Ok(rd) = std::fs::read_dir(&reg_dir) {
        let mut files: Vec<_> = rd.flatten().map(|e| e.path()).filter(|p| p.extension().map(|x| x == "json").unwrap_or(false)).collect();
        files.sort();
        for f in files {
            if let Ok(txt) = std::fs::read_to_string(&f) {
                if let Ok(v) = serde_json::from_str::<serde_json::Value>(&txt) {
                    let case = if v.get("case").is_some() { v["case"].clone() } else { v.clone() };
                    if checks::replay_case(&id, &mut run, &case) {
                        regress += 1;
                    }
                }
            }
        }
    }
    if !checks::run_check(&id, &mut run) {
        eprintln!("check {} is not implemented", id);
        exit(2);
    }
    run.extra.insert("regression_replays_run".into(), serde_json::json!(regress));
    exit(run.finish());
}
