use pckb_verif::checks;
use pckb_verif::report::{install_panic_hook, verif_dir, Run, Tier};
use std::process::exit;

fn usage() -> ! {
    eprintln!("usage: pckb-check <C01..C20> [--tier quick|thorough] [--replay <file>] [--regress]");
    exit(2)
}

fn main() {
    let args: Vec<String> = std::env::args().skip(1).collect();
    if args.is_empty() {
        usage();
    }
    if args[0] == "seeds" {
        // pckb-check seeds <dir>: write the fuzz seed corpora
        let dir = std::path::PathBuf::from(args.get(1).cloned().unwrap_or_else(|| usage()));
        let n = pckb_verif::fuzz_api::write_seeds(&dir).expect("cannot write seeds");
        println!("{} seed files written under {}", n, dir.display());
        return;
    }
    if args[0] == "fuzz-targets" {
        // pckb-check fuzz-targets <ID>: which fuzz targets serve this property
        for t in pckb_verif::fuzz_api::targets_for(&args.get(1).cloned().unwrap_or_default().to_uppercase()) {
            println!("{}", t);
        }
        return;
    }
    let id = args[0].to_uppercase();
    if !checks::ALL_IDS.contains(&id.as_str()) {
        usage();
    }
    let mut tier = match std::env::var("VERIF_TIER").ok().as_deref() {
        Some("thorough") => Tier::Thorough,
        _ => Tier::Quick,
    };
    let mut replay: Option<String> = None;
    let mut fuzz_stats: Option<String> = None;
    let mut i = 1;
    while i < args.len() {
        match args[i].as_str() {
            "--tier" => {
                i += 1;
                tier = match args.get(i).map(|s| s.as_str()) {
                    Some("quick") => Tier::Quick,
                    Some("thorough") => Tier::Thorough,
                    _ => usage(),
                };
            }
            "--fuzz-stats" => {
                i += 1;
                fuzz_stats = Some(args.get(i).cloned().unwrap_or_else(|| usage()));
            }
            "--replay" => {
                i += 1;
                replay = Some(args.get(i).cloned().unwrap_or_else(|| usage()));
            }
            _ => usage(),
        }
        i += 1;
    }
    let seed: u64 = std::env::var("VERIF_SEED").ok().and_then(|s| s.trim().parse::<i64>().ok()).map(|x| x as u64).unwrap_or(0);
    install_panic_hook();
    let mut run = Run::new(&id, tier, seed);

    if let Some(path) = replay {
        run.replay_mode = true;
        let txt = std::fs::read_to_string(&path).unwrap_or_else(|e| {
            eprintln!("cannot read replay file {}: {}", path, e);
            exit(2)
        });
        let v: serde_json::Value = serde_json::from_str(&txt).unwrap_or_else(|e| {
            eprintln!("replay file {} is not JSON: {}", path, e);
            exit(2)
        });
        let case = if v.get("case").is_some() { v["case"].clone() } else { v.clone() };
        if !checks::replay_case(&id, &mut run, &case) {
            eprintln!("replay: unknown case kind in {}", path);
            exit(2);
        }
        exit(run.finish());
    }

    // regression tier: committed minimal reproductions of earlier (seeded) failures run first
    let reg_dir = verif_dir().join("replays").join(&id);
    let mut regress = 0;
    if let Ok(rd) = std::fs::read_dir(&reg_dir) {
        let mut files: Vec<_> = rd.flatten().map(|e| e.path()).filter(|p| p.extension().map(|x| x == "json").unwrap_or(false)).collect();
        files.sort();
        for f in files {
            if let Ok(txt) = std::fs::read_to_string(&f) {
                if let Ok(v) = serde_json::from_str::<serde_json::Value>(&txt) {
                    let case = if v.get("case").is_some() { v["case"].clone() } else { v.clone() };
                    if checks::replay_case(&id, &mut run, &case) {
                        regress += 1;
                    }
                }
            }
        }
    }
    if !checks::run_check(&id, &mut run) {
        eprintln!("check {} is not implemented", id);
        exit(2);
    }
    run.extra.insert("regression_replays_run".into(), serde_json::json!(regress));
    if let Some(dir) = fuzz_stats {
        ingest_fuzz(&mut run, &id, std::path::Path::new(&dir));
    }
    exit(run.finish());
}

/// Coverage-guided campaigns (thorough tier): statistics go into the evidence; every artifact
/// is minimised against the same oracle and re-evaluated by the strict evaluators, so a
/// fuzzer-found violation is reported exactly like any other, with a replay file.
fn ingest_fuzz(run: &mut Run, id: &str, dir: &std::path::Path) {
    use pckb_verif::fuzz_api;
    let mut files: Vec<_> = std::fs::read_dir(dir).map(|rd| rd.flatten().map(|e| e.path()).collect()).unwrap_or_default();
    files.sort();
    for f in files {
        if f.extension().map(|x| x == "json").unwrap_or(false) {
            let Ok(txt) = std::fs::read_to_string(&f) else { continue };
            let Ok(v) = serde_json::from_str::<serde_json::Value>(&txt) else { continue };
            let target = v["target"].as_str().unwrap_or("").to_string();
            let execs = v["execs"].as_u64().unwrap_or(0);
            run.eval(execs);
            // fuzz executions are not individually fingerprinted: counted conservatively as
            // one non-trivial case per corpus entry that libFuzzer kept (new coverage)
            run.nontrivial_enum(v["corpus_units"].as_u64().unwrap_or(0));
            let mut arts = Vec::new();
            if let Some(a) = v["artifacts"].as_array() {
                for p in a.iter().filter_map(|x| x.as_str()) {
                    if let Ok(data) = std::fs::read(p) {
                        let min = fuzz_api::minimize(&target, id, &data);
                        arts.push(serde_json::json!({"artifact": p, "bytes": data.len(), "minimised_bytes": min.len()}));
                        if let Some(case) = fuzz_api::decode_case(&target, id, &min) {
                            checks::replay_case(id, run, &case);
                        }
                    }
                }
            }
            let mut part = v.clone();
            part["artifacts_processed"] = serde_json::json!(arts);
            run.part(&format!("libfuzzer:{}", target), part);
            if v["job"].as_u64() == Some(1) {
                if let Some(cd) = v["corpus_dir"].as_str() {
                    let mut entries: Vec<_> = std::fs::read_dir(cd).map(|rd| rd.flatten().map(|e| e.path()).collect()).unwrap_or_default();
                    entries.sort();
                    if let Some(pth) = entries.iter().rev().find(|p| std::fs::metadata(p).map(|m| m.len() > 12 && m.len() < 120).unwrap_or(false)) {
                        if let Ok(data) = std::fs::read(pth) {
                            if let Some(case) = fuzz_api::decode_case(&target, id, &data) {
                                let t = target.clone();
                                run.sample(|| serde_json::json!({"layer":"libfuzzer corpus entry","target":t,"decoded_case":case}));
                            }
                        }
                    }
                }
            }
        }
    }
}
