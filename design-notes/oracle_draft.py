# Draft national-layout oracle written from memory of the standards (Windows KBD* as on kbdlayout.info,
# the Wikipedia pictures the README links, Colemak.com, Kaufmann's Programmer Dvorak).
import json
NUM = ['Oem8','Key1','Key2','Key3','Key4','Key5','Key6','Key7','Key8','Key9','Key0','OemMinus','OemPlus']
RQ  = ['Q','W','E','R','T','Y','U','I','O','P','Oem4','Oem6']
RA  = ['A','S','D','F','G','H','J','K','L','Oem1','Oem3','Oem7']
RZ  = ['Oem5','Z','X','C','V','B','N','M','OemComma','OemPeriod','Oem2']
def rows(num, q, a, z):
    out = {}
    for keys, (b, s) in zip((NUM, RQ, RA, RZ), (num, q, a, z)):
        assert len(b) == len(keys) == len(s), (keys, b, s)
        for k, cb, cs in zip(keys, b, s):
            if cb == '\0': continue   # key absent / unconstrained on this layout
            out[k] = [cb, cs]
    return out
# '\0' = not constrained
L = {}
L['us'] = rows(("`1234567890-=", "~!@#$%^&*()_+"), ("qwertyuiop[]", "QWERTYUIOP{}"), ("asdfghjkl;'\\", 'ASDFGHJKL:"|'), ("\0zxcvbnm,./", "\0ZXCVBNM<>?"))
L['uk'] = rows(("`1234567890-=", '¬!"£$%^&*()_+'), ("qwertyuiop[]", "QWERTYUIOP{}"), ("asdfghjkl;'#", 'ASDFGHJKL:@~'), ("\\zxcvbnm,./", "|ZXCVBNM<>?"))
L['de'] = rows(("^1234567890ß´", '°!"§$%&/()=?`'), ("qwertzuiopü+", "QWERTZUIOPÜ*"), ("asdfghjklöä#", "ASDFGHJKLÖÄ'"), ("<yxcvbnm,.-", ">YXCVBNM;:_"))
L['fr'] = rows(("²&é\"'(-è_çà)=", "\0" "1234567890°+"), ("azertyuiop^$", "AZERTYUIOP¨£"), ("qsdfghjklmù*", "QSDFGHJKLM%µ"), ("<wxcvbn,;:!", ">WXCVBN?./§"))
L['no'] = rows(("|1234567890+\\", '§!"#¤%&/()=?`'), ("qwertyuiopå¨", "QWERTYUIOPÅ^"), ("asdfghjkløæ'", "ASDFGHJKLØÆ*"), ("<zxcvbnm,.-", ">ZXCVBNM;:_"))
L['fise'] = rows(("§1234567890+´", '½!"#¤%&/()=?`'), ("qwertyuiopå¨", "QWERTYUIOPÅ^"), ("asdfghjklöä'", "ASDFGHJKLÖÄ*"), ("<zxcvbnm,.-", ">ZXCVBNM;:_"))
L['jis'] = rows(("\0" "1234567890-^", "\0" "!\"#$%&'()" "\0" "=" "\0"), ("qwertyuiop@[", "QWERTYUIOP`{"), ("asdfghjkl;:]", "ASDFGHJKL+*}"), ("\0zxcvbnm,./", "\0ZXCVBNM<>?"))
L['jis']['Oem12'] = ['\\', '_']
L['jis']['Oem13'] = ['¥', '|']
L['colemak'] = rows(("`1234567890-=", "~!@#$%^&*()_+"), ("qwfpgjluy;[]", "QWFPGJLUY:{}"), ("arstdhneio'\\", 'ARSTDHNEIO"|'), ("\0zxcvbkm,./", "\0ZXCVBKM<>?"))
L['dvorak'] = rows(("`1234567890[]", "~!@#$%^&*(){}"), ("',.pyfgcrl/=", '"<>PYFGCRL?+'), ("aoeuidhtns-\\", "AOEUIDHTNS_|"), ("\0;qjkxbmwvz", "\0:QJKXBMWVZ"))
L['dvp'] = rows(("$&[{}(=*)+]!#", "~%7531902468`"), (";,.pyfgcrl/@", ":<>PYFGCRL?^"), ("aoeuidhtns-\\", "AOEUIDHTNS_|"), ("\0'qjkxbmwvz", "\0\"QJKXBMWVZ"))
ALTGR = {
 'us': {}, 'colemak': {}, 'dvorak': {}, 'dvp': {}, 'jis': {},
 'uk': {'Key4':'€'},
 'de': {'Key2':'²','Key3':'³','Key7':'{','Key8':'[','Key9':']','Key0':'}','OemMinus':'\\','Q':'@','E':'€','Oem6':'~','Oem5':'|','M':'µ'},
 'fr': {'Key2':'~','Key3':'#','Key4':'{','Key5':'[','Key6':'|','Key7':'`','Key8':'\\','Key9':'^','Key0':'@','OemMinus':']','OemPlus':'}','E':'€','Oem6':'¤'},
 'no': {'Key2':'@','Key3':'£','Key4':'$','Key5':'€','Key7':'{','Key8':'[','Key9':']','Key0':'}','OemPlus':'´','E':'€','Oem6':'~','M':'µ'},
 'fise': {'Key2':'@','Key3':'£','Key4':'$','Key5':'€','Key7':'{','Key8':'[','Key9':']','Key0':'}','OemMinus':'\\','E':'€','Oem6':'~','Oem5':'|','M':'µ'},
}
if __name__ == '__main__':
    d = json.load(open('/tmp/scratch/dump.json'))
    def val(x): return chr(x[1]) if x[0]=='U' else 'Raw(%s)'%x[1]
    for lay in L:
        for k,(b,s) in L[lay].items():
            got_b, got_s = val(d[lay][k]['base']), val(d[lay][k]['shift'])
            if got_b != b: print(f"{lay:8} {k:10} BASE  oracle={b!r} code={got_b!r}")
            if s != '\0' and got_s != s: print(f"{lay:8} {k:10} SHIFT oracle={s!r} code={got_s!r}")
        for k in d[lay]:
            got_b, got_a = val(d[lay][k]['base']), val(d[lay][k]['altgr'])
            if got_a != got_b:
                exp = ALTGR[lay].get(k)
                tag = 'ok' if exp == got_a else ('UNREFERENCED' if exp is None else 'MISMATCH')
                if tag!='ok': print(f"{lay:8} {k:10} ALTGR {tag} oracle={exp!r} code={got_a!r}")
        # char keys in code not covered by oracle
        for k in d[lay]:
            if k in L[lay]: continue
            x = d[lay][k]['base']
            if x[0]=='U' and k not in ('Escape','Backspace','Tab','Return','Delete','Spacebar') and not k.startswith('Numpad'):
                print(f"{lay:8} {k:10} UNCOVERED code base={val(x)!r} shift={val(d[lay][k]['shift'])!r}")
