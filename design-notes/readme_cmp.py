import re
rows=[]
for line in open('/repo/README.md'):
    m=re.match(r'\|\s*(\w+)\s*\|\s*(0x[0-9A-Fa-f]+|--)\s*\|\s*(0x[0-9A-Fa-f]+|--)\s*\|',line)
    if m: rows.append(m.groups())
print(len(rows),'rows')
def seq(h):
    if h=='--': return None
    v=int(h,16); 
    if v>0xFF: return ('E0' if (v>>8)==0xE0 else 'E1', v&0xFF)
    return ('start',v)
s1={};s2={}
for k,a,b in rows:
    if seq(a): s1.setdefault(seq(a),[]).append(k)
    if seq(b): s2.setdefault(seq(b),[]).append(k)
print('dup set1',{k:v for k,v in s1.items() if len(v)>1}); print('dup set2',{k:v for k,v in s2.items() if len(v)>1})
code={}
for line in open('/tmp/scratch/sc.txt'):
    p=line.split()
    code[(p[0],p[1],int(p[2],16))]=p[3]
# compare makes
for (ctx,c),ks in sorted(s2.items()):
    got=code[('set2',ctx,c)]
    for k in ks:
        if not got.startswith(k+':'): print('SET2 README',ctx,hex(c),k,'code gives',got)
for (ctx,c),ks in sorted(s1.items()):
    got=code[('set1',ctx,c)]
    for k in ks:
        if not got.startswith(k+':'): print('SET1 README',ctx,hex(c),k,'code gives',got)
# code entries not in README
for (st,ctx,c),got in sorted(code.items()):
    if got.startswith('Err') or got=='None': continue
    if st=='set2' and ctx in('start','E0','E1'):
        if (ctx,c) not in s2 or got.split(':')[0] not in s2[(ctx,c)]: print('SET2 code-only',ctx,hex(c),got)
    if st=='set1' and c<0x80:
        if (ctx,c) not in s1 or got.split(':')[0] not in s1[(ctx,c)]: print('SET1 code-only',ctx,hex(c),got)
