import json
d = json.load(open('/tmp/scratch/dump.json'))
def val(x): return chr(x[1]) if x[0]=='U' else 'Raw(%s)'%x[1]
print("== C09 predicted")
for lay in d:
    for k,v in d[lay].items():
        b=val(v['base']); c=val(v['ctrl'])
        if len(b)==1 and 'a'<=b<='z':
            exp=chr(ord(b)&0x1f)
            if c!=exp: print(lay,k,'types',b,'ctrl gives U+%04X'%ord(c) if len(c)==1 else c,'expected U+%04X'%ord(exp))
        else:
            if c!=b: print(lay,k,'nonletter changes under ctrl',b,c)
print("== C10 predicted")
for lay in d:
    for k,v in d[lay].items():
        b,s,c,cs=[val(v[x]) for x in ('base','shift','caps','capsshift')]
        letter = len(b)==1 and len(s)==1 and b.islower() and b.upper()==s and b!=s
        if letter:
            if not (c==s and cs==b): print(lay,k,'letter key',b,s,'caps->',c,'caps+shift->',cs)
        else:
            if not (c==b and cs==s): print(lay,k,'non-letter key',b,s,'caps->',c,'caps+shift->',cs)
print("== C12 predicted")
for lay in d:
    have=set()
    for k,v in d[lay].items():
        for lvl in ('base','shift','altgr'):
            x=val(v[lvl])
            if len(x)==1: have.add(x)
    missing=[chr(c) for c in range(0x20,0x7f) if chr(c) not in have]
    print(lay,'missing',missing)
