#!/usr/bin/env python3
import json, glob, os
idx = {}
if os.path.exists('/verif/mutants/INDEX.txt'):
    for l in open('/verif/mutants/INDEX.txt'):
        n, p = l.split(); idx[n] = p
rows = []
for f in sorted(glob.glob('/verif/mutants/results/*.json')):
    r = json.load(open(f)); name = os.path.basename(f)[:-5]
    target = idx.get(name)
    if target is None and (name.startswith('refac_') or name.startswith('pres_')):
        target = 'NONE'
    if target is None and name.startswith('seeded_'):
        m = '/verif/seeded/%s/meta.json' % name[7:]
        target = json.load(open(m))['property'] if os.path.exists(m) else name[7:10]
    caught = r.get('caught_by', [])
    und = [c for c, rc in r.get('checks', {}).items() if rc == 2]
    preserved = None
    if name.startswith('pres_'):
        mp = '/verif/preserving/%s/meta.json' % name[5:]
        if os.path.exists(mp): preserved = json.load(open(mp))['preserves']
    if preserved is not None:
        ok = not [c for c in caught if c in preserved] and not und
        target = 'keep:' + ','.join(preserved)[:18]
    else:
        ok = (target == 'NONE' and not caught and not und) or (target in caught)
        if not ok and name.startswith('seeded_') and caught and os.path.exists('/verif/seeded/%s/not_target.md' % name[7:]):
            ok = True; target = target + ' (by neighbours*)'
    rows.append((name, target, r.get('repo_tests_pass_with_patch'), r.get('demo_fails_with_patch'), r.get('demo_passes_without_patch'), caught, und, ok))
w = max(len(r[0]) for r in rows) if rows else 10
print(f"{'mutant':{w}} {'target / preserved':22} tests demo+/- caught_by  [undecided]")
for name, target, tp, df, dp, caught, und, ok in rows:
    print(f"{name:{w}} {target:22} {str(tp):5} {str(df)[:1]}/{str(dp)[:1]}      {','.join(caught) or '-'}  {und or ''} {'' if ok else '   <<<<<< FALSE ALARM' if (target=='NONE' or target.startswith('keep:')) else '   <<<<<< MISSED'}")
print("missed:", [r[0] for r in rows if not r[7]])
print("* caught by neighbouring checks only, deliberately: see seeded/<id>/not_target.md")
