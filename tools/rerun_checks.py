#!/usr/bin/env python3
"""rerun_checks.py C03,C05 [pattern]: re-run only the named quick checks for every patch of the
matrix (after a check was changed) and merge the exit codes into mutants/results/<name>.json."""
import glob, json, os, subprocess, sys, queue
from concurrent.futures import ThreadPoolExecutor
checks = sys.argv[1]; pat = sys.argv[2] if len(sys.argv) > 2 else ""
n = int(os.environ.get("SLOTS", "8"))
os.chdir("/verif")
jobs = []
for p in sorted(glob.glob("mutants/*.patch")) + sorted(glob.glob("seeded/*/patch.diff")) + sorted(glob.glob("refactorings/*/patch.diff")) + sorted(glob.glob("preserving/*/patch.diff")):
    if pat not in p: continue
    d = os.path.basename(os.path.dirname(p))
    name = ("refac_" + d) if p.startswith("refactorings/") else ("pres_" + d) if p.startswith("preserving/") else ("seeded_" + d) if p.startswith("seeded/") else os.path.basename(p)[:-6]
    jobs.append((p, name))
slots = queue.Queue()
for i in range(n): slots.put(40 + i)
def run(job):
    p, name = job
    s = slots.get()
    try:
        tmp = f"/var/tmp/pckb-rerun-{s}.json"
        subprocess.run(["python3", "tools/run_seeded.py", p, "--skip-tests", "--checks", checks, "--slot", str(s), "--json", tmp, "--collect", f"mutants/results/replays/{name}"], stdout=subprocess.DEVNULL, stderr=subprocess.DEVNULL)
        new = json.load(open(tmp)); os.remove(tmp)
        rp = f"mutants/results/{name}.json"
        if not os.path.exists(rp):
            print("no full result for", name); return
        r = json.load(open(rp))
        r["checks"].update(new["checks"])
        r.setdefault("first_violation", {}).update(new.get("first_violation", {}))
        for c in new["checks"]:
            if new["checks"][c] != 1: r["first_violation"].pop(c, None)
        r["caught_by"] = sorted(c for c, v in r["checks"].items() if v == 1)
        json.dump(r, open(rp, "w"), indent=1)
    finally:
        slots.put(s)
with ThreadPoolExecutor(n) as ex: list(ex.map(run, jobs))
