#!/usr/bin/env python3
"""Run the quick checks against a scratch copy of the repository with one patch applied.

usage: run_seeded.py <patch.diff> [--demo demo.rs] [--checks all|C01,C07] [--slot N] [--json out.json]

The scratch copy is a git worktree of /repo HEAD under /var/tmp/pckb-mut-<slot>, removed
afterwards together with its build output. Nothing in /repo's working tree is modified.
Reports: do the repository's own tests still pass with the patch; does the demo fail with /
pass without the patch; exit code of every requested check (0 silent, 1 violation, 2 undecided).
"""
import argparse, json, os, shutil, subprocess, sys, time

ALL = ["C%02d" % i for i in range(1, 21)]

def sh(cmd, cwd=None, env=None, timeout=1800):
    e = dict(os.environ); e["CARGO_NET_OFFLINE"] = "true"
    if env: e.update(env)
    p = subprocess.run(cmd, cwd=cwd, env=e, shell=isinstance(cmd, str), stdout=subprocess.PIPE, stderr=subprocess.STDOUT, text=True, timeout=timeout)
    return p.returncode, p.stdout

def main():
    ap = argparse.ArgumentParser()
    ap.add_argument("patch")
    ap.add_argument("--demo")
    ap.add_argument("--checks", default="all")
    ap.add_argument("--slot", default="0")
    ap.add_argument("--json")
    ap.add_argument("--skip-tests", action="store_true")
    ap.add_argument("--collect", help="directory to copy the first replay file of each alarming check into")
    a = ap.parse_args()
    checks = ALL if a.checks == "all" else a.checks.split(",")
    wt = f"/var/tmp/pckb-mut-{a.slot}"
    tgt = f"/var/tmp/pckb-target-mut-{a.slot}"
    res = {"patch": os.path.abspath(a.patch), "checks": {}, "first_violation": {}}
    sh(f"git -C /repo worktree remove --force {wt}"); shutil.rmtree(wt, ignore_errors=True); sh("git -C /repo worktree prune")
    rc, out = sh(f"git -C /repo worktree add --detach {wt} HEAD")
    if rc != 0:
        print(out); sys.exit(2)
    try:
        if a.demo:
            # demo on the unmodified copy must pass
            os.makedirs(f"{wt}/tests", exist_ok=True)
            shutil.copy(a.demo, f"{wt}/tests/seeded_demo.rs")
            rc, out = sh("cargo test --offline --test seeded_demo", cwd=wt, env={"CARGO_TARGET_DIR": f"{tgt}/repo-tests"})
            res["demo_passes_without_patch"] = (rc == 0)
            os.remove(f"{wt}/tests/seeded_demo.rs")
        rc, out = sh(f"git apply --whitespace=nowarn {os.path.abspath(a.patch)}", cwd=wt)
        if rc != 0:
            print("patch does not apply:\n" + out); res["applies"] = False
            if a.json: json.dump(res, open(a.json, "w"), indent=1)
            sys.exit(2)
        res["applies"] = True
        if not a.skip_tests:
            rc, out = sh("cargo test --workspace --no-fail-fast --offline", cwd=wt, env={"CARGO_TARGET_DIR": f"{tgt}/repo-tests"})
            res["repo_tests_pass_with_patch"] = (rc == 0 and "32 passed" in out)
            if rc != 0:
                res["repo_tests_output_tail"] = out[-1500:]
        if a.demo:
            shutil.copy(a.demo, f"{wt}/tests/seeded_demo.rs")
            rc, out = sh("cargo test --offline --test seeded_demo", cwd=wt, env={"CARGO_TARGET_DIR": f"{tgt}/repo-tests"})
            res["demo_fails_with_patch"] = (rc != 0)
            os.remove(f"{wt}/tests/seeded_demo.rs")
        for c in checks:
            t0 = time.time()
            V = os.environ.get("PCKB_VERIF_DIR", "/verif")
            rc, out = sh([f"{V}/check", c], cwd=V, env={"PCKB_REPO": wt, "PCKB_TARGET_DIR": f"{tgt}/harness", "PCKB_OUT_DIR": f"{tgt}/evidence-out"})
            res["checks"][c] = rc
            if rc == 1 and a.collect:
                import glob
                os.makedirs(a.collect, exist_ok=True)
                for rp in sorted(glob.glob(f"{tgt}/evidence-out/replay/{c}-*.json"))[:1]:
                    shutil.copy(rp, os.path.join(a.collect, f"{c}.json"))
            if rc == 1:
                v = [l for l in out.splitlines() if l.startswith("  what:")]
                res["first_violation"][c] = v[0][8:300] if v else ""
            elif rc == 2:
                res["first_violation"][c] = "UNDECIDED: " + out[-400:]
            res.setdefault("wall", {})[c] = round(time.time() - t0, 1)
    finally:
        sh(f"git -C /repo worktree remove --force {wt}"); shutil.rmtree(wt, ignore_errors=True); sh("git -C /repo worktree prune")
    caught = [c for c, rc in res["checks"].items() if rc == 1]
    res["caught_by"] = caught
    print(json.dumps(res, indent=1))
    if a.json:
        json.dump(res, open(a.json, "w"), indent=1)

if __name__ == "__main__":
    main()
