#!/bin/bash
# tools/fuzz_tier_on_seed.sh <seed-dir-name> [runs]: apply a seeded change to /repo, run ONLY the
# libFuzzer campaigns of its property, hand the artifacts to the harness, restore /repo.
# Prints: <name> <property> artifacts=<n> fuzz_found=<yes|no>
set -u
N="$1"; RUNS="${2:-300000}"; ID="${N:0:3}"
cd /repo && git apply "/verif/seeded/$N/patch.diff" || exit 2
trap 'cd /repo && git checkout -- . ' EXIT
cd /verif/harness && CARGO_NET_OFFLINE=true cargo build --release >/dev/null 2>&1
S=/verif/target/fuzz-on-seed/$N; rm -rf "$S"; mkdir -p "$S"
PCKB_BIN=/verif/target/release/pckb-check PCKB_FUZZ_RUNS=$RUNS /verif/fuzz/run_campaign.sh "$ID" "$S" >/dev/null 2>&1
arts=$(cat "$S"/*-job*.json 2>/dev/null | python3 -c "
import sys,json
n=0
for l in sys.stdin:
    l=l.strip()
    if l: n+=len(json.loads(l).get('artifacts',[]))
print(n)")
echo "$N $ID artifacts=$arts fuzz_found=$([ "${arts:-0}" -gt 0 ] && echo yes || echo no)"
