#!/bin/bash
# Sensitivity matrix: every hand-written mutant (mutants/*.patch), every seeded change
# (seeded/*/patch.diff), every refactoring and every property-preserving audit candidate against
# every quick check, N at a time (SLOTS, default 4), each in its own scratch worktree.
# usage: tools/run_mutants.sh [pattern]     results -> mutants/results/<name>.json, summary on stdout
# With SNAPSHOT=1 the machinery is first frozen into /var/tmp/pckb-verif-snap (so /verif can be
# edited while the matrix runs); the snapshot is removed at the end.
cd /verif
mkdir -p mutants/results
if [ -n "${SNAPSHOT:-}" ]; then
  rm -rf /var/tmp/pckb-verif-snap; mkdir -p /var/tmp/pckb-verif-snap
  rsync -a --exclude target --exclude .git --exclude mutants/results /verif/ /var/tmp/pckb-verif-snap/
  export PCKB_VERIF_DIR=/var/tmp/pckb-verif-snap
fi
PAT="${1:-}" SLOTS="${SLOTS:-4}" python3 - <<'PY'
import glob, os, subprocess, queue, threading
pat = os.environ.get("PAT", ""); n = int(os.environ.get("SLOTS", "4"))
jobs = []
for p in sorted(glob.glob("mutants/*.patch")) + sorted(glob.glob("seeded/*/patch.diff")) + sorted(glob.glob("refactorings/*/patch.diff")) + sorted(glob.glob("preserving/*/patch.diff")):
    if pat not in p: continue
    d = os.path.basename(os.path.dirname(p)); demo = []
    if p.startswith("refactorings/"): name = "refac_" + d
    elif p.startswith("preserving/"): name = "pres_" + d
    elif p.startswith("seeded/"):
        name = "seeded_" + d
        dm = sorted(glob.glob(os.path.dirname(p) + "/demo*.rs"))
        if dm: demo = ["--demo", dm[0]]
    else: name = os.path.basename(p)[:-6]
    jobs.append((p, name, demo))
slots = queue.Queue()
for i in range(n): slots.put(i)
def run(job):
    p, name, demo = job
    s = slots.get()
    try:
        subprocess.run(["python3", "tools/run_seeded.py", p] + demo + ["--slot", str(s), "--json", f"mutants/results/{name}.json", "--collect", f"mutants/results/replays/{name}"], stdout=subprocess.DEVNULL, stderr=subprocess.DEVNULL)
    finally:
        slots.put(s)
from concurrent.futures import ThreadPoolExecutor
with ThreadPoolExecutor(n) as ex: list(ex.map(run, jobs))
PY
[ -n "${SNAPSHOT:-}" ] && rm -rf /var/tmp/pckb-verif-snap
python3 tools/summarize_mutants.py
