#!/bin/bash
# Sensitivity matrix: every hand-written mutant (mutants/*.patch), every seeded change
# (seeded/*/patch.diff), every refactoring and every property-preserving audit candidate against
# every quick check. Uses N parallel slots.
# usage: tools/run_mutants.sh [pattern]     results -> mutants/results/<name>.json, summary on stdout
cd /verif
mkdir -p mutants/results
PAT="${1:-}"
N=${SLOTS:-4}
i=0
for p in mutants/*.patch seeded/*/patch.diff refactorings/*/patch.diff preserving/*/patch.diff; do
  [ -f "$p" ] || continue
  case "$p" in *"$PAT"*) ;; *) continue;; esac
  if [[ "$p" == refactorings/* ]]; then name="refac_$(basename $(dirname $p))"; demo="";
  elif [[ "$p" == preserving/* ]]; then name="pres_$(basename $(dirname $p))"; demo="";
  elif [[ "$p" == seeded/* ]]; then name="seeded_$(basename $(dirname $p))"; demo="--demo $(ls $(dirname $p)/demo*.rs 2>/dev/null | head -1)"; else name=$(basename "$p" .patch); demo=""; fi
  slot=$((i % N)); i=$((i+1))
  ( python3 tools/run_seeded.py "$p" $demo --slot $slot --json "mutants/results/$name.json" --collect "mutants/results/replays/$name" > /dev/null 2>&1 ) &
  if [ $((i % N)) -eq 0 ]; then wait; fi
done
wait
python3 tools/summarize_mutants.py
