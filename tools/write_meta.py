#!/usr/bin/env python3
"""Regenerates seeded/*/meta.json, refactorings/*/meta.json and replays/<ID>/ from mutants/results."""
import json, glob, os, re
ROUND_NOTE = {1: '', 2: '; round 2 asked for changes that need a long or specially shaped history (hidden state, repetition counts)',
 3: '; round 3 asked for changes that are as subtle as possible (fewest affected inputs, unusual code paths)',
 4: '; round 4 was ADVERSARIAL: the agent was additionally given a generic description of the technique class (state exploration with caps, pumping, repeat-then-perturb, random sequences of a few hundred ops, minutes of fuzzing) and asked to design changes that escape it',
 9: '; round 9: as round 8 (three changes, unusual locations) for the other ten properties',
 8: '; round 8 (property text only) asked for THREE changes per property, at most one in the most obvious function and the others where a reviewer would not look first (shared helper, other pipeline stage, wrapper, constructor, rarely used entry point)',
 7: '; round 7 completed the plain re-measurement for the remaining properties (property text only)',
 6: '; round 6 (after the second false-alarm audit had loosened several checks) was a plain round again: property text only',
 5: '; round 5 was ADVERSARIAL and FULLY INFORMED: the agent was given the complete list of generator families with their bounds (repetition counts, alphabets, window sizes, fuzz input length) and asked for plausible changes with triggers below ~3000 operations that escape all of them'}
FIRST_PASS = {}  # name -> caught by target at first pass (filled from tools/first_pass.json if present)
if os.path.exists('/verif/tools/first_pass.json'):
    FIRST_PASS = json.load(open('/verif/tools/first_pass.json'))
for d in sorted(glob.glob('/verif/seeded/C*-*')):
    name = os.path.basename(d); prop = name[:3]
    rp = f'/verif/mutants/results/seeded_{name}.json'
    if not os.path.exists(rp): print('no result', name); continue
    r = json.load(open(rp))
    notes = open(d + '/notes.md').read() if os.path.exists(d + '/notes.md') else ''
    def grab(key):
        m = re.search(r'(?im)^[-*#]*\s*\**\s*(?:%s)[^:\n]*:?\**\s*(.+)$' % key, notes)
        return m.group(1).strip() if m else ''
    suffix = name.split('-')[1]
    rnd = int(suffix[0]) if suffix[0].isdigit() else 1
    meta = {
     'property': prop, 'round': rnd,
     'origin': 'sub-agent given only the property title+statement and a private scratch worktree of /repo HEAD (bc7eab6); nothing from /verif' + ROUND_NOTE[rnd],
     'what_changes': grab('what') or notes.strip().split('\n')[0][:400],
     'needs_to_manifest': grab('what it needs|needs|what specific|shortest|minimal trigger|trigger|manifest|affected|exactly which'),
     'confirmed_by_me': {
        'command': 'tools/run_seeded.py seeded/%s/patch.diff --demo seeded/%s/demo.rs  (scratch worktree of /repo HEAD under /var/tmp, removed afterwards)' % (name, name),
        'patch_applies': r.get('applies'), 'repo_tests_pass_with_patch(32)': r.get('repo_tests_pass_with_patch'),
        'demo_fails_with_patch': r.get('demo_fails_with_patch'), 'demo_passes_without_patch': r.get('demo_passes_without_patch')},
     'quick_checks_exit_codes': r['checks'], 'caught_by': r['caught_by'],
     'target_check_catches': prop in r['caught_by'],
     'first_violation_line_of_target': r['first_violation'].get(prop, '')[:600],
    }
    if os.path.exists(d + '/not_target.md'): meta['why_the_target_check_does_not_catch_it'] = open(d + '/not_target.md').read().strip()
    if name in FIRST_PASS: meta['caught_by_target_at_first_pass(before the machinery was extended)'] = FIRST_PASS[name]
    json.dump(meta, open(d + '/meta.json', 'w'), indent=1, ensure_ascii=False)
for d in sorted(glob.glob('/verif/refactorings/R*')):
    name = os.path.basename(d); rp = f'/verif/mutants/results/refac_{name}.json'
    if not os.path.exists(rp): continue
    r = json.load(open(rp))
    json.dump({'kind': 'behaviour-preserving refactoring from an independent sub-agent (verified by the agent with a differential test against an embedded copy of the original)', 'repo_tests_pass_with_patch(32)': r.get('repo_tests_pass_with_patch'), 'quick_checks_exit_codes': r['checks'], 'alarms': r['caught_by'], 'expected': 'all 20 checks exit 0'}, open(d + '/meta.json', 'w'), indent=1)
idx = {}
for l in open('/verif/mutants/INDEX.txt'):
    n, p = l.split(); idx[n] = p
n = 0; skipped = 0
for d in sorted(glob.glob('/verif/mutants/results/replays/*')):
    name = os.path.basename(d)
    prop = idx.get(name) or (name[7:10] if name.startswith('seeded_') else None)
    if not prop or prop == 'NONE': continue
    src = os.path.join(d, prop + '.json')
    if not os.path.exists(src): continue
    if os.path.getsize(src) > 150_000: skipped += 1; continue
    os.makedirs(f'/verif/replays/{prop}', exist_ok=True)
    v = json.load(open(src)); v['from_mutant'] = name
    json.dump(v, open(f'/verif/replays/{prop}/{name}.json', 'w'), ensure_ascii=False); n += 1
print('replays', n, 'skipped(large)', skipped)
