#!/usr/bin/env python3
"""hook_overlay.py <build-output-file> <overlay-tree>

The verif-hooks feature derives Debug/Clone/PartialEq/Eq on the two scancode decoders. If the tree
under test meanwhile derives (or implements) some of those traits itself, the hook-on build fails
with E0119 "conflicting implementations". This script edits ONLY the hook's own
`#[cfg_attr(feature = "verif-hooks", derive(..))]` lines in a scratch copy of the tree, dropping
the traits the tree already provides for that type, so the harness builds against code that is
otherwise byte-identical. Exit 0 if at least one hook line was rewritten."""
import re, sys, os
out = open(sys.argv[1]).read()
tree = sys.argv[2]
drop = {}
for m in re.finditer(r"conflicting implementations? of trait `([^`]+)` for type `([^`]+)`", out):
    tr = m.group(1).split("::")[-1].split("<")[0]
    ty = m.group(2).split("::")[-1].split("<")[0]
    drop.setdefault(ty, set()).add(tr)
if not drop:
    sys.exit(1)
changed = 0
hook = re.compile(r'^(\s*)#\[cfg_attr\(\s*feature\s*=\s*"verif-hooks"\s*,\s*derive\(([^)]*)\)\s*\)\]\s*$')
for root, _, files in os.walk(os.path.join(tree, "src")):
    for fn in files:
        if not fn.endswith(".rs"):
            continue
        p = os.path.join(root, fn)
        lines = open(p).read().split("\n")
        new = list(lines)
        for i, line in enumerate(lines):
            m = hook.match(line)
            if not m:
                continue
            # which type does this attribute decorate?
            ty = None
            for j in range(i + 1, min(i + 12, len(lines))):
                t = re.match(r"\s*(?:pub(?:\([^)]*\))?\s+)?(?:struct|enum)\s+([A-Za-z0-9_]+)", lines[j])
                if t:
                    ty = t.group(1)
                    break
            if ty is None or ty not in drop:
                continue
            traits = [t.strip() for t in m.group(2).split(",") if t.strip()]
            keep = [t for t in traits if t.split("::")[-1] not in drop[ty]]
            # StructuralPartialEq conflicts come with PartialEq derives
            if "StructuralPartialEq" in drop[ty]:
                keep = [t for t in keep if t != "PartialEq"]
            if keep == traits:
                continue
            new[i] = (m.group(1) + '#[cfg_attr(feature = "verif-hooks", derive(' + ", ".join(keep) + "))]") if keep else (m.group(1) + "// verif-hooks derive dropped in the overlay: the tree provides these traits itself")
            changed += 1
        if new != lines:
            open(p, "w").write("\n".join(new))
print("hook overlay: dropped", {k: sorted(v) for k, v in drop.items()}, "rewrote", changed, "hook line(s)")
sys.exit(0 if changed else 1)
